"""Derived-query battery: every public query of a container recomputed from the abstract
state by set arithmetic and compared with what the library returns."""
from collections import Counter

from .models import KEYS, sorted_key, weq
from .observe import key_from_lib, lib_args, kind_of


def wdict_eq(a, b):
    """{key: weight} equal up to float association (sums of non-dyadic weights)"""
    return set(a) == set(b) and all(weq(a[k], b[k]) for k in a)


class _Raised:
    def __init__(self, e):
        self.e = e

    def __repr__(self):
        return f"<raised {type(self.e).__name__}: {self.e}>"


def call(f, *a, **k):
    try:
        return f(*a, **k)
    except Exception as e:
        return _Raised(e)


def _sel(S, K, filt, up_to=False):
    """keys of S selected by filt = None | ('order', k) | ('size', k)"""
    if filt is None:
        return list(S.edges)
    size = filt[1] + 1 if filt[0] == "order" else filt[1]
    if up_to:
        return [k for k in S.edges if K.size(k) <= size]
    return [k for k in S.edges if K.size(k) == size]


_NP = {"rng": None}


def _fkw(filt):
    if filt is None:
        return {}
    v = filt[1]
    if _NP["rng"] is not None and _NP["rng"].random() < 0.1:
        import numpy as np

        v = np.int64(v)  # a filter value that comes out of an array
    return {filt[0]: v}


def battery(ctx, h, S, rng, tag=None, wit=None, full=False):
    kind = kind_of(h)
    tag = tag or kind
    _NP["rng"] = rng
    K = KEYS[kind]
    W = wit or (lambda: {})

    def chk(q, cond, got=None, exp=None):
        ctx.check(f"{tag}:battery", cond, f"{tag}:battery:{q}",
                  (lambda: dict(W(), query=q, got=repr(got)[:600], expected=repr(exp)[:600])), abort=not cond)

    sizes = [K.size(k) for k in S.edges]
    mx = max(sizes) if sizes else 0
    ks = list(range(0, mx + 2))
    filters = [None] + [("size", k) for k in ks] + [("order", k - 1) for k in ks]
    if not full and len(filters) > 7:  # sample, but always keep None and two boundary values
        filters = [None, ("size", mx + 1), ("order", -1), ("size", 0), ("order", 0)] + rng.sample(filters[1:], 4)  # (falsy filter values always in)

    # ---------------- listings, counts, weights ----------------------------------------
    if kind in ("H", "D", "T"):
        for f in filters:
            for up in ((False, True) if f is not None else (False,)):
                exp = set(_sel(S, K, f, up))
                kw = dict(_fkw(f), **({"up_to": True} if up else {}))
                got = call(h.get_edges, **kw)
                ok = not isinstance(got, _Raised) and len(got) == len(exp) and {key_from_lib(kind, e) for e in got} == exp
                chk("get_edges(filter)", ok, got, exp)
                gotm = call(h.get_edges, metadata=True, **kw)
                ok = isinstance(gotm, dict) and {key_from_lib(kind, e): m for e, m in gotm.items()} == {k: S.edges[k][1] for k in exp}
                chk("get_edges(filter,metadata=True)", ok, gotm, exp)
                gw = call(h.get_weights, **kw)
                ok = not isinstance(gw, _Raised) and Counter(map(repr, gw)) == Counter(repr(S.edges[k][0]) for k in exp)
                chk("get_weights(filter)", ok, gw, [S.edges[k][0] for k in exp])
                gwd = call(h.get_weights, asdict=True, **kw)
                ok = isinstance(gwd, dict) and {key_from_lib(kind, e): w for e, w in gwd.items()} == {k: S.edges[k][0] for k in exp}
                chk("get_weights(filter,asdict)", ok, gwd, exp)
                if kind in ("H", "T"):
                    gn = call(h.num_edges, **kw)
                    chk("num_edges(filter)", gn == len(exp), gn, len(exp))
        if not isinstance(call(h.get_edges, order=1, size=2), _Raised):
            ctx.note("observation:get_edges(order and size both given) accepted")  # not claimed by the property
    if kind == "D":
        chk("num_edges", call(h.num_edges) == len(S.edges))
        ge = h.get_edges()
        chk("get_sources", call(h.get_sources) == [e[0] for e in ge] and all(frozenset(e[0]) == key_from_lib(kind, e)[0] for e in ge))
        chk("get_targets", call(h.get_targets) == [e[1] for e in ge])
    chk("num_nodes", call(h.num_nodes) == len(S.nodes)) if hasattr(h, "num_nodes") else None
    if hasattr(h, "__len__"):
        chk("len", call(len, h) == len(S.edges))

    # ---------------- size statistics ----------------------------------------------------
    if kind in ("H", "D", "T"):
        chk("get_sizes", Counter(call(h.get_sizes)) == Counter(sizes), call(h.get_sizes), sizes)
        chk("get_orders", Counter(call(h.get_orders)) == Counter(s - 1 for s in sizes))
        chk("distribution_sizes", call(h.distribution_sizes) == dict(Counter(sizes)))
        ms = call(h.max_size)
        mo = call(h.max_order)
        if sizes:
            chk("max_size", ms == mx, ms, mx)
            chk("max_order", mo == mx - 1, mo, mx - 1)
        else:  # leniency: value or ValueError
            chk("max_size(empty)", isinstance(ms, _Raised) or ms in (0, None), ms)
        chk("is_uniform", call(h.is_uniform) == (len(set(sizes)) <= 1), call(h.is_uniform), sizes)

    # ---------------- membership ---------------------------------------------------------
    absent_nodes = [n for n in ("__absent__", -99991) if n not in S.nodes]
    if hasattr(h, "check_node"):
        for n in S.nodes:
            chk("check_node(present)", bool(call(h.check_node, n)) is True)
        for n in absent_nodes:
            r = call(h.check_node, n)
            chk("check_node(absent)", not isinstance(r, _Raised) and bool(r) is False, r, False)
    if hasattr(h, "check_edge"):
        for k in S.edges:
            chk("check_edge(present,permuted)", call(h.check_edge, *lib_args(kind, k, rng)) is True)
    for k in _absent_keys(kind, S, K):
        a = lib_args(kind, k, rng)
        if hasattr(h, "check_edge"):
            r = call(h.check_edge, *a)
            chk("check_edge(absent)", r is False, r, False)
        # an absent hyperedge has no weight / metadata: raising or answering "nothing" are both fine, a value is not
        r_ = call(h.get_weight, *a)
        chk("get_weight(absent)->value", isinstance(r_, _Raised) or r_ is None or r_ == 0, r_)
        r_ = call(h.get_edge_metadata, *a)
        chk("get_edge_metadata(absent)->value", isinstance(r_, _Raised) or not r_, r_)
    for k in S.edges:  # permuted access
        a = lib_args(kind, k, rng)
        chk("get_weight(permuted)", call(h.get_weight, *a) == S.edges[k][0])  # S is the observation itself: exact
        chk("get_edge_metadata(permuted)", call(h.get_edge_metadata, *a) == S.edges[k][1])

    # ---------------- incidence, neighbours, degrees ---------------------------------------
    nfilters = filters  # (for the multiplex container only the incident-record listing takes a filter)
    for f in nfilters:
        kw = _fkw(f)
        sel = _sel(S, K, f)
        degs = {}
        for n in S.nodes:
            exp = [k for k in sel if n in K.nodes(k)]
            degs[n] = len(exp)
            got = call(h.get_incident_edges, n, **kw)
            ok = not isinstance(got, _Raised) and Counter(key_from_lib(kind, e) for e in got) == Counter(exp)
            chk("get_incident_edges", ok, got, [sorted_key(k) for k in exp])
            if hasattr(h, "get_neighbors"):
                expn = set().union(*[K.nodes(k) for k in exp]) - {n} if exp else set()
                gotn = call(h.get_neighbors, n, **kw)
                chk("get_neighbors", not isinstance(gotn, _Raised) and set(gotn) == expn and len(gotn) == len(expn), gotn, expn)
                if hasattr(h, "is_isolated"):
                    gi = call(h.is_isolated, n, **kw)
                    chk("is_isolated", gi is (len(expn) == 0) or gi == (len(expn) == 0), gi, len(expn) == 0)
            if kind == "D":
                es = [k for k in sel if n in k[0]]
                et = [k for k in sel if n in k[1]]
                gs = call(h.get_source_edges, n, **kw)
                gt = call(h.get_target_edges, n, **kw)
                chk("get_source_edges", not isinstance(gs, _Raised) and Counter(key_from_lib(kind, e) for e in gs) == Counter(es), gs, es)
                chk("get_target_edges", not isinstance(gt, _Raised) and Counter(key_from_lib(kind, e) for e in gt) == Counter(et), gt, et)
                from hypergraphx.measures.directed import in_degree, out_degree

                chk("in_degree", call(in_degree, h, n, **kw) == len(es))
                chk("out_degree", call(out_degree, h, n, **kw) == len(et))
            if kind != "M" or f is None:
                gd = call(h.degree, n, **kw)
                chk("degree", gd == len(exp), gd, len(exp))
        if kind != "M" or f is None:
            gseq = call(h.degree_sequence, **kw)
            chk("degree_sequence", gseq == degs, gseq, degs)
            if hasattr(h, "degree_distribution"):
                gdist = call(h.degree_distribution, **kw)
                chk("degree_distribution", gdist == dict(Counter(degs.values())), gdist, dict(Counter(degs.values())))
        if kind == "D":
            from hypergraphx.measures.directed import in_degree_sequence, out_degree_sequence

            chk("in_degree_sequence", call(in_degree_sequence, h, **kw) == {n: sum(1 for k in sel if n in k[0]) for n in S.nodes})
            chk("out_degree_sequence", call(out_degree_sequence, h, **kw) == {n: sum(1 for k in sel if n in k[1]) for n in S.nodes})
        if hasattr(h, "isolated_nodes") and hasattr(h, "get_neighbors"):
            expi = [n for n in S.nodes if not any(n in K.nodes(k) and K.size(k) > 1 for k in sel)]
            goti = call(h.isolated_nodes, **kw)
            chk("isolated_nodes", not isinstance(goti, _Raised) and Counter(goti) == Counter(expi), goti, expi)
        if f is not None and S.nodes and rng.random() < 0.3:
            # the same filter handed over POSITIONALLY, in each method's documented parameter order:
            # (node, order, size) for the listings and degrees, ([node,] size, order) for the isolation queries
            o_, s_ = (f[1], None) if f[0] == "order" else (None, f[1])
            n0 = rng.choice(sorted(S.nodes, key=repr))
            exp0 = [k for k in sel if n0 in K.nodes(k)]
            got = call(h.get_incident_edges, n0, o_, s_)
            chk("get_incident_edges(positional-filter)", not isinstance(got, _Raised) and Counter(key_from_lib(kind, e) for e in got) == Counter(exp0), got, (f, n0))
            if kind != "M":
                chk("degree(positional-filter)", call(h.degree, n0, o_, s_) == len(exp0), f, n0)
                chk("degree_sequence(positional-filter)", call(h.degree_sequence, o_, s_) == degs, f)
            if hasattr(h, "get_neighbors"):
                expn0 = set().union(*[K.nodes(k) for k in exp0]) - {n0} if exp0 else set()
                gotn = call(h.get_neighbors, n0, o_, s_)
                chk("get_neighbors(positional-filter)", not isinstance(gotn, _Raised) and set(gotn) == expn0, gotn, (f, n0))
                if hasattr(h, "is_isolated"):
                    chk("is_isolated(positional-filter)", bool(call(h.is_isolated, n0, s_, o_)) == (len(expn0) == 0), f, n0)
                if hasattr(h, "isolated_nodes"):
                    goti = call(h.isolated_nodes, s_, o_)
                    chk("isolated_nodes(positional-filter)", not isinstance(goti, _Raised) and Counter(goti) == Counter(expi), goti, f)
            if kind in ("H", "D"):
                got = call(h.get_edges, o_, s_)
                chk("get_edges(positional-filter)", not isinstance(got, _Raised) and {key_from_lib(kind, e) for e in got} == set(sel) and len(got) == len(sel), got, f)
            if kind in ("H", "T"):
                chk("num_edges(positional-filter)", call(h.num_edges, o_, s_) == len(sel), f)
    for n in absent_nodes:
        r_ = call(h.get_incident_edges, n)
        chk("get_incident_edges(absent)->value", isinstance(r_, _Raised) or not r_, r_)
        if hasattr(h, "get_neighbors"):
            r_ = call(h.get_neighbors, n)
            chk("get_neighbors(absent)->value", isinstance(r_, _Raised) or not r_, r_)
        if hasattr(h, "get_node_metadata"):
            r_ = call(h.get_node_metadata, n)
            chk("get_node_metadata(absent)->value", isinstance(r_, _Raised) or not r_, r_)

    # ---------------- bulk metadata views ------------------------------------------------
    if hasattr(h, "get_all_nodes_metadata"):
        g = call(h.get_all_nodes_metadata)
        if isinstance(g, dict):
            chk("get_all_nodes_metadata", g == S.nodes, g, S.nodes)
        else:
            chk("get_all_nodes_metadata", not isinstance(g, _Raised) and Counter(map(repr, g)) == Counter(map(repr, S.nodes.values())), g, S.nodes)
    if hasattr(h, "get_all_edges_metadata"):
        g = call(h.get_all_edges_metadata)
        vals = list(g.values()) if isinstance(g, dict) else g
        chk("get_all_edges_metadata", not isinstance(g, _Raised) and Counter(map(repr, vals)) == Counter(repr(v[1]) for v in S.edges.values()), g, S.edges)

    # ---------------- type specific ------------------------------------------------------
    if kind == "T":
        _battery_temporal(ctx, h, S, rng, chk, full)
    if kind == "M":
        _battery_multiplex(ctx, h, S, rng, chk)
    if kind == "H" and sizes and S.nodes and rng.random() < 0.3:
        from hypergraphx.measures import degree as dm

        n = rng.choice(list(S.nodes))
        chk("measures.degree.degree", call(dm.degree, h, n) == sum(1 for k in S.edges if n in k))
        chk("measures.degree.degree_sequence", call(dm.degree_sequence, h, size=mx) == {n: sum(1 for k in S.edges if n in k and len(k) == mx) for n in S.nodes})


def _absent_keys(kind, S, K):
    """a few keys that are not in S but are near misses of keys that are"""
    out = []
    X = "__x__" if any(isinstance(n, str) for n in S.nodes) else -99991
    for k in list(S.edges)[:4]:
        if kind == "H":
            c = [k | {X}, frozenset(list(k)[:-1]) if len(k) > 1 else None]
        elif kind == "D":
            c = [(k[1], k[0]), (k[0] | {X}, k[1])]
        elif kind == "T":
            c = [(k[0] + 1, k[1]), (k[0], k[1] | {X})]
        else:
            c = [(k[0], "__nolayer__"), (k[0] | {X}, k[1])]
        for x in c:
            if x is not None and x not in S.edges and K.size(x) > 0 and _mixed_ok(K.nodes(x)):
                out.append(x)
    return out[:6]


def _mixed_ok(nodes):
    try:
        sorted(nodes)
        return True
    except TypeError:
        return False


# --------------------------------------------------------------------------------------
def _expected_H(S_edges_keys_w, weighted):
    return S_edges_keys_w


def _obs_plain(g):
    """(weighted, {fs: w}, nodes set) of a returned Hypergraph, via public API"""
    edges = {}
    for e in g.get_edges():
        edges[frozenset(e)] = g.get_weight(e)
    return g.is_weighted(), edges, set(g.get_nodes())


def _battery_temporal(ctx, h, S, rng, chk, full):
    import math

    times = [k[0] for k in S.edges]
    tmax = max(times) if times else 0
    chk("min_time", call(h.min_time) == (min(times) if times else math.inf), call(h.min_time))
    chk("max_time", call(h.max_time) == (max(times) if times else -math.inf), call(h.max_time))
    # times of an edge
    for fs in {k[1] for k in S.edges}:
        exp = sorted(k[0] for k in S.edges if k[1] == fs)
        got = call(h.get_times_for_edge, lib_args("H", fs, rng)[0])
        chk("get_times_for_edge", not isinstance(got, _Raised) and sorted(got) == exp, got, exp)
    # windows: all a<b in [-1, tmax+2]
    if tmax <= 50:
        wins = [(a, b) for a in range(-1, tmax + 2) for b in range(a + 1, tmax + 3)]
    else:  # very large time stamps (beyond 2**53): windows between the boundary points around the realised times
        pts = sorted({p for t in set(times) for p in (t - 1, t, t + 1)} | {0, tmax + 2})
        wins = [(a, b) for a in pts for b in pts if a < b]
        if len(wins) > 40:
            wins = rng.sample(wins, 40)
    if not full and len(wins) > 6:
        wins = rng.sample(wins, 6)
    sizes = sorted({len(k[1]) for k in S.edges} | {0, 1})
    for (a, b) in wins:
        inw = [k for k in S.edges if a <= k[0] < b]
        got = call(h.get_edges, time_window=(a, b))
        chk("get_edges(time_window)", not isinstance(got, _Raised) and Counter(key_from_lib("T", e) for e in got) == Counter(inw), got, (a, b))
        s = rng.choice(sizes + [max(sizes) + 1])
        for up in (False, True):
            exp = [k for k in inw if (len(k[1]) <= s if up else len(k[1]) == s)]
            got = call(h.get_edges, time_window=(a, b), size=s, up_to=up)
            chk("get_edges(time_window,size,up_to)", not isinstance(got, _Raised) and Counter(key_from_lib("T", e) for e in got) == Counter(exp), got, ((a, b), s, up))
            got = call(h.get_edges, time_window=(a, b), order=s - 1, up_to=up)
            chk("get_edges(time_window,order,up_to)", not isinstance(got, _Raised) and Counter(key_from_lib("T", e) for e in got) == Counter(exp), got, ((a, b), s, up))
        # snapshots within window
        sub = call(h.subhypergraph, (a, b))
        _check_snapshots(chk, sub, S, [k for k in S.edges if a <= k[0] < b], "subhypergraph(window)")
    sub = call(h.subhypergraph)
    _check_snapshots(chk, sub, S, list(S.edges), "subhypergraph()")
    sub_all = call(h.subhypergraph, None, True)  # add_all_nodes=True: the hyperedge clause is the same
    _check_snapshots(chk, sub_all, S, list(S.edges), "subhypergraph(add_all_nodes=True)")
    if isinstance(sub_all, dict) and any(set(g.get_nodes()) != set(S.nodes) for g in sub_all.values()):
        # documented ("all the nodes of the Temporal Hypergraph"), not part of C03's statement: counted, never judged
        ctx.note("diagnostic:subhypergraph(add_all_nodes=True)-snapshot-lacks-nodes-of-other-times")
    if isinstance(sub, dict) and sub and rng.random() < 0.3:
        # the caller owns what it was handed: editing it must not change the next answer
        mark = "__caller_edit__" if any(isinstance(n, str) for n in S.nodes) else -424242
        try:
            for g in sub.values():
                g.add_edge((mark,))
        except Exception:
            pass
        _check_snapshots(chk, call(h.subhypergraph), S, list(S.edges), "subhypergraph()(after the caller edited the previous result)")
        if S.edges and tmax <= 50:
            agg = call(h.aggregate, 1)
            if isinstance(agg, dict):
                for g in agg.values():
                    try:
                        g.add_edge((mark,))
                    except Exception:
                        pass
                agg2 = call(h.aggregate, 1)
                ok = isinstance(agg2, dict) and all(mark not in g.get_nodes() for g in agg2.values())
                chk("aggregate(after the caller edited the previous result)", ok)
    # aggregate
    if tmax <= 50:
        widths = list(range(1, tmax + 3))
    else:  # widths of the magnitude of the time stamps (a handful of windows), exact integer arithmetic in the reference
        widths = sorted({w for w in (tmax, tmax + 1, tmax // 2, tmax // 2 + 1, tmax // 3 + 1, 1 << (tmax.bit_length() - 1), (1 << (tmax.bit_length() - 1)) - 1,
                                     1 << (tmax.bit_length() - 2)) if w >= 1 and tmax // w + 1 <= 40})
    if not full and len(widths) > 3:
        if tmax > 50:
            # always the widths that put a realised time stamp right below a window boundary (t = k*w - 1 with w beyond 2**53:
            # a float quotient rounds it into the next window)
            must = [w for w in (tmax + 1, 1 << (tmax.bit_length() - 1)) if w in widths]
            widths = must + rng.sample([w for w in widths if w not in must], min(2, len(widths) - len(must)))
        else:
            widths = rng.sample(widths, 3)
    for w in widths:
        agg = call(h.aggregate, w)
        if isinstance(agg, _Raised) or not isinstance(agg, dict):
            chk("aggregate", False, agg, w)
            continue
        if not S.edges:
            chk("aggregate(empty)", agg == {}, agg)
            continue
        expk = list(range(0, tmax // w + 1))
        chk("aggregate:window-keys", sorted(agg.keys()) == expk, sorted(agg.keys()), expk)
        for i in expk:
            g = agg[i]
            gw, ge, gn = _obs_plain(g)
            expe = {}
            for k, (wt, md) in S.edges.items():
                if k[0] // w == i:
                    expe[k[1]] = (expe.get(k[1], 0) + wt) if S.weighted else 1
            chk("aggregate:nodes", gn == set(S.nodes), gn, set(S.nodes))
            chk("aggregate:edges", set(ge) == set(expe), ge, expe)
            chk("aggregate:weights", wdict_eq(ge, expe), ge, expe)
            chk("aggregate:weightedness", bool(gw) == bool(S.weighted))
    for bad in (0, -1):
        if not isinstance(call(h.aggregate, bad), _Raised):
            ctx.note("observation:aggregate(non-positive width) accepted")  # not claimed by the property


def _check_snapshots(chk, sub, S, keys, name):
    if isinstance(sub, _Raised) or not isinstance(sub, dict):
        chk(name, False, sub)
        return
    times = sorted({k[0] for k in keys})
    chk(name + ":times", sorted(sub.keys()) == times, sorted(sub.keys()), times)
    for t in times:
        gw, ge, gn = _obs_plain(sub[t])
        expe = {k[1]: S.edges[k][0] for k in keys if k[0] == t}
        chk(name + ":edges+weights", wdict_eq(ge, expe), ge, expe)
        chk(name + ":weightedness", bool(gw) == bool(S.weighted))


def _battery_multiplex(ctx, h, S, rng, chk):
    from hypergraphx.measures.multiplex import edge_overlap

    layers_in_use = {k[1] for k in S.edges}
    got = call(h.get_existing_layers)
    chk("get_existing_layers", not isinstance(got, _Raised) and set(got) >= layers_in_use, got, layers_in_use)
    agg = call(h.aggregated_hypergraph)
    if isinstance(agg, _Raised):
        chk("aggregated_hypergraph", False, agg)
        return
    gw, ge, gn = _obs_plain(agg)
    expe = {}
    for (fs, l), (w, md) in S.edges.items():
        expe[fs] = (expe.get(fs, 0) + w) if S.weighted else 1
    chk("aggregated_hypergraph:nodes", gn == set(S.nodes), gn, set(S.nodes))
    chk("aggregated_hypergraph:node_md", call(lambda: {n: agg.get_node_metadata(n) for n in agg.get_nodes()}) == S.nodes)
    chk("aggregated_hypergraph:edges", set(ge) == set(expe), ge, expe)
    chk("aggregated_hypergraph:weights", wdict_eq(ge, expe), ge, expe)
    chk("aggregated_hypergraph:weightedness", bool(gw) == bool(S.weighted))
    ov = {}
    for (fs, l), (w, md) in S.edges.items():
        ov[fs] = ov.get(fs, 0) + w
    for fs in list(ov)[:6]:
        got = call(edge_overlap, h, lib_args("H", fs, rng)[0])
        chk("edge_overlap(present)", not isinstance(got, _Raised) and weq(got, ov[fs]), got, ov[fs])
    for fs in [k for k in (frozenset(["__x__", "__y__"]),) if k not in ov]:
        got = call(edge_overlap, h, tuple(fs))
        chk("edge_overlap(absent)", got == 0, got, 0)
