"""Driver: shards a property's case budget over subprocesses, merges what the monitors
observed, classifies violations against known_findings.json, writes evidence + replays,
prints the verdict lines and returns the exit code (0 held / 1 violation / 2 inconclusive).
"""
import importlib
import json
import os
import subprocess
import sys
import tempfile
import time

from . import monitor

VERIF = os.path.dirname(os.path.dirname(os.path.abspath(__file__)))
PY = sys.executable


def repo_path():
    return os.path.abspath(os.environ.get("HGX_VERIF_REPO", "/repo"))


def child_env():
    env = dict(os.environ)
    env["PYTHONPATH"] = repo_path() + os.pathsep + VERIF
    env["PYTHONDONTWRITEBYTECODE"] = "1"
    env["PYTHONHASHSEED"] = "0"
    env["HGX_VERIF"] = "1"
    env["OMP_NUM_THREADS"] = "1"
    env["OPENBLAS_NUM_THREADS"] = "1"
    env["MKL_NUM_THREADS"] = "1"
    env["PYTHONWARNINGS"] = "ignore"
    return env


def assert_repo_import():
    """The library under test must come from <repo>, rebuilt (= re-imported) every run."""
    import hypergraphx

    f = os.path.abspath(hypergraphx.__file__)
    if not f.startswith(repo_path() + os.sep):
        raise RuntimeError(f"hypergraphx imported from {f}, expected under {repo_path()}")


def load_oracle(prop):
    return importlib.import_module(f"hgxmon.oracles.{prop.lower()}")


def load_findings():
    p = os.path.join(VERIF, "known_findings.json")
    if not os.path.exists(p):
        return []
    with open(p) as fh:
        return json.load(fh).get("findings", [])


# ------------------------------------------------------------------------------------
# shard entry point (child process)
# ------------------------------------------------------------------------------------
def shard_main(argv):
    prop, tier, seed, lo, hi, out = argv[0], argv[1], int(argv[2]), int(argv[3]), int(argv[4]), argv[5]
    stride = int(argv[6]) if len(argv) > 6 else 1
    sys.path.insert(0, repo_path())
    assert_repo_import()
    oracle = load_oracle(prop)
    ctx = monitor.Ctx(prop, seed, tier)
    from . import probes

    probes.coverage_start(repo_path())
    if hasattr(oracle, "setup"):
        oracle.setup(ctx)
    known = {f["mechanism"] for f in load_findings() if f["property"] == prop and f.get("status") == "open"}
    monitor.run_cases(oracle, ctx, range(lo, hi, stride), not_counted=known)  # open findings must not cut the exploration short
    if hasattr(oracle, "teardown"):
        oracle.teardown(ctx)
    d = ctx.dump()
    d["reach"] = probes.coverage_hits()
    d["probe_errors"] = probes.ERRORS[:5]
    with open(out, "w") as fh:
        json.dump(d, fh)
    return 0


# ------------------------------------------------------------------------------------
# parent
# ------------------------------------------------------------------------------------
def run_property(prop, tier, seed, replay=None):
    t0 = time.time()
    oracle = load_oracle(prop)  # parent imports only for metadata (TIERS, RULE, DECIDING)
    if replay is not None:
        with open(replay) as fh:
            r = json.load(fh)
        seed = r["seed"]
        tier = r.get("tier", tier)
        ranges = [(c, c + 1, 1) for c in sorted(set(r["cases"]))][:16]
        total = len(ranges)
    else:
        total = int(os.environ.get("VERIF_CASES", oracle.TIERS[tier]))
        nshard = max(1, min(int(os.environ.get("VERIF_JOBS", os.cpu_count() or 4)), total, 16))
        # interleaved: shard i runs the cases i, i+n, i+2n, ... (the expensive families sit at particular index ranges -
        # random histories before the exhaustive ones, scale cases at small indices - so contiguous blocks balance badly)
        ranges = [(i, total, nshard) for i in range(nshard)]
    watchdog = int(os.environ.get("VERIF_WATCHDOG_S", getattr(oracle, "WATCHDOG_S", {}).get(tier, 3000)))
    tmpd = tempfile.mkdtemp(prefix="hgxmon_")
    procs = []
    dumps, inconclusive = [], []
    try:
        for i, (lo, hi, stride) in enumerate(ranges):
            out = os.path.join(tmpd, f"s{i}.json")
            log = open(os.path.join(tmpd, f"s{i}.log"), "w")
            p = subprocess.Popen(
                [PY, "-m", "hgxmon.driver", "--shard", prop, tier, str(seed), str(lo), str(hi), out, str(stride)],
                cwd=VERIF, env=child_env(), stdout=log, stderr=subprocess.STDOUT,
            )
            procs.append((p, out, log, (lo, hi, stride)))
        deadline = time.time() + watchdog
        for p, out, log, rng_ in procs:
            try:
                rc = p.wait(timeout=max(1, deadline - time.time()))
            except subprocess.TimeoutExpired:
                p.kill()
                p.wait()
                inconclusive.append(f"watchdog: shard {rng_} exceeded {watchdog}s")
                continue
            finally:
                log.close()
            if rc != 0 or not os.path.exists(out):
                with open(log.name) as fh:
                    tail = fh.read()[-1500:]
                inconclusive.append(f"shard {rng_} exited {rc}: {tail}")
                continue
            with open(out) as fh:
                dumps.append(json.load(fh))
    finally:
        for p, *_ in procs:
            if p.poll() is None:
                p.kill()
        import shutil

        shutil.rmtree(tmpd, ignore_errors=True)

    m = monitor.merge(dumps)
    reach = set()
    for d in dumps:
        reach.update((f, l) for f, l in d.get("reach", []))
    m["reach"] = reach
    m["probe_errors"] = [e for d in dumps for e in d.get("probe_errors", [])][:5]
    # --- three-valued discipline: deciding monitors must have been evaluated -----------
    for name in getattr(oracle, "DECIDING", []):
        if m["monitors"].get(name, 0) == 0:
            inconclusive.append(f"deciding monitor '{name}' evaluated 0 times")
    band = sum(m["inconclusive"].values())
    if m["cases_run"] and band > 0.01 * m["cases_run"]:
        inconclusive.append(f"{band} un-judgeable cases/events (>1% of cases): {dict(m['inconclusive'])}")

    # --- classify violations -----------------------------------------------------------
    findings = load_findings()
    open_keys = {
        f["mechanism"]: f for f in findings if f["property"] == prop and f.get("status") == "open"
    }
    known_hit, unknown = {}, []
    for mech, n in m["viol_counts"].items():
        if mech in open_keys:
            known_hit[mech] = n
        else:
            unknown.append(mech)
    lines = []
    rc = 0
    for mech in sorted(known_hit):
        lines.append(f"KNOWN-FINDING: property={prop} {mech}: {open_keys[mech].get('summary','')}")
    if unknown:
        os.makedirs(os.path.join(VERIF, "replays"), exist_ok=True)
        cases = sorted({v["case"] for v in m["violations"] if v["mechanism"] in unknown and v["case"] is not None})
        tagm = "" if repo_path() == "/repo" else "_mutant_" + monitor.digest(repo_path())[:6]
        rp = os.path.join(VERIF, "replays", f"{prop}_seed{seed}_{tier}{tagm}.json")
        with open(rp, "w") as fh:
            json.dump(
                {
                    "property": prop, "seed": seed, "tier": tier, "cases": cases[:16],
                    "mechanisms": {k: m["viol_counts"][k] for k in unknown},
                    "violations": _pick(m["violations"], unknown),
                },
                fh, indent=1,
            )
        for mech in sorted(unknown)[:10]:
            lines.append(f"  violated: {mech} x{m['viol_counts'][mech]}")
        lines.append(f"VIOLATION property={prop} replay={rp}")
        rc = 1
    elif inconclusive:
        lines.append(f"INCONCLUSIVE property={prop} reason={inconclusive[0][:500]}")
        rc = 2
    if not unknown and replay is None:
        stale = os.path.join(VERIF, "replays", f"{prop}_seed{seed}_{tier}.json")
        if os.path.exists(stale):
            os.remove(stale)
    if unknown and inconclusive:
        lines.append(f"  (also inconclusive: {inconclusive[0][:800]})")

    if replay is None and repo_path() == "/repo":  # evidence only ever comes from /repo itself
        write_evidence(prop, tier, seed, oracle, m, known_hit, unknown, inconclusive, time.time() - t0)
    else:
        for v in m["violations"][:5]:
            lines.append("  witness: " + json.dumps(v)[:2000])
    for ln in lines:
        print(ln)
    nmon = sum(m["monitors"].values())
    print(
        f"[{prop} {tier} seed={seed}] cases={m['cases_run']} distinct_nontrivial={len(m['distinct'])} "
        f"monitor_evaluations={nmon} violations={sum(m['viol_counts'].values())} "
        f"(known={sum(known_hit.values())}) wall={time.time()-t0:.1f}s rc={rc}"
    )
    return rc


def reach_report(prop, reach):
    """per anchored file: executed / executable lines, and the functions never entered"""
    from . import probes

    files = []
    try:
        with open(os.path.join(VERIF, "properties.jsonl")) as fh:
            for ln in fh:
                p = json.loads(ln)
                if p["id"] == prop:
                    files = p["anchors"]["files"]
    except Exception:
        pass
    by_file = {}
    for f, l in reach:
        by_file.setdefault(f, set()).add(l)
    rep = {}
    for f in files:
        path = os.path.join(repo_path(), f)
        if not os.path.exists(path):
            continue
        ex = probes.executable_lines(path)
        hit = by_file.get(f, set()) & ex
        never = [q for q, a, b in probes.functions_in(path) if not any(a < l <= b for l in by_file.get(f, set()))]
        rep[f] = {"lines_executed": len(hit), "lines_executable": len(ex), "functions_never_entered": never[:40]}
    return rep


def _pick(viols, mechs, per=3, cap=30):
    out, cnt = [], {}
    for v in viols:
        if v["mechanism"] in mechs and cnt.get(v["mechanism"], 0) < per:
            cnt[v["mechanism"]] = cnt.get(v["mechanism"], 0) + 1
            out.append(v)
    return out[:cap]


def write_evidence(prop, tier, seed, oracle, m, known_hit, unknown, inconclusive, wall):
    cov = {
        "evaluations": m["cases_run"],
        "distinct_nontrivial": len(m["distinct"]),
        "rule": getattr(oracle, "RULE", ""),
        "samples": m["samples"],
        "monitor_evaluations": dict(sorted(m["monitors"].items())),
        "events_by_kind": dict(sorted(m["events"].items())),
        "exceptions_observed": dict(sorted(m["exceptions"].items())),
        "distinct_sets": {k: len(v) for k, v in m["extra_sets"].items()},
        "known_findings_hit": known_hit,
        "unlisted_violation_mechanisms": {k: m["viol_counts"][k] for k in unknown},
        "inconclusive": inconclusive,
        "inconclusive_cases": dict(m["inconclusive"]),
        "notes": dict(m["notes"]),
        "exhaustive": bool(getattr(oracle, "EXHAUSTIVE", {}).get(tier, False)),
        "library_reach": reach_report(prop, m.get("reach", set())),
        "probe_errors": m.get("probe_errors", []),
    }
    ev = {
        "property_id": prop,
        "tier": tier,
        "seed": seed,
        "level": "exploration",
        "coverage": cov,
        "assumptions": getattr(oracle, "ASSUMPTIONS", []),
        "wall_s": round(wall, 2),
        "violations": sum(m["viol_counts"][k] for k in unknown),
    }
    os.makedirs(os.path.join(VERIF, "evidence"), exist_ok=True)
    with open(os.path.join(VERIF, "evidence", f"{prop}.json"), "w") as fh:
        json.dump(ev, fh, indent=1, sort_keys=False)
        fh.write("\n")


def main(argv=None):
    argv = list(sys.argv[1:] if argv is None else argv)
    if argv and argv[0] == "--shard":
        return shard_main(argv[1:])
    import argparse

    ap = argparse.ArgumentParser(prog="check")
    ap.add_argument("property")
    ap.add_argument("--tier", default=os.environ.get("VERIF_TIER", "quick"), choices=["quick", "thorough"])
    ap.add_argument("--replay")
    a = ap.parse_args(argv)
    seed = int(os.environ.get("VERIF_SEED", "0"))
    sys.path.insert(0, repo_path())
    return run_property(a.property.upper(), a.tier, seed, a.replay)


if __name__ == "__main__":
    sys.exit(main())
