"""Scale inputs shared by several oracles (tens to hundreds of nodes, hundreds of hyperedges)."""


def big_hypergraph(rng, weighted=False, contiguous=False, connected=False, sizes=(1, 2, 2, 3, 4, 6), n=None, m=None, hub=None):
    import hypergraphx as hgx

    n = n or rng.randint(60, 120)
    nodes = list(range(n)) if contiguous else [5 * i - 100 for i in range(n)]
    h = hgx.Hypergraph(weighted=weighted)
    h.add_nodes(nodes)
    if connected:
        perm = nodes[:]
        rng.shuffle(perm)
        for i in range(0, n - 1):
            h.add_edge((perm[i], perm[i + 1]), weight=rng.choice([1, 2, 3]) if weighted else None)
    if hub is None:
        hub = rng.random() < 0.5
    if hub:  # one node in 40-80 hyperedges of mixed sizes
        hnode = nodes[rng.randrange(n)]
        for _ in range(rng.randint(40, 80)):
            k = min(n, max(2, rng.choice(list(sizes))))
            e = tuple({hnode, *rng.sample(nodes, k - 1)})
            if len(e) >= 2 and not h.check_edge(e):
                h.add_edge(e, weight=rng.choice([0.5, 1, 2, 7]) if weighted else None)
    for _ in range(m or rng.randint(150, 400)):
        e = tuple(rng.sample(nodes, min(n, rng.choice(list(sizes)))))
        if not h.check_edge(e):
            h.add_edge(e, weight=rng.choice([0.5, 1, 2, 7]) if weighted else None)
    return h


def big_directed(rng, weighted=False, n=None, m=None):
    import hypergraphx as hgx

    n = n or rng.randint(40, 80)
    nodes = [3 * i + 7 for i in range(n)]
    h = hgx.DirectedHypergraph(weighted=weighted)
    edges = []
    for _ in range(m or rng.randint(150, 300)):
        if edges and rng.random() < 0.25:
            s, t = rng.choice(edges)
            e = (t, s)
        else:
            k = rng.choice([2, 2, 3, 4, 5, 6])
            ns = rng.sample(nodes, k)
            cut = rng.randint(1, k - 1)
            e = (tuple(sorted(ns[:cut])), tuple(sorted(ns[cut:])))
        edges.append(e)
        h.add_edge(e, weight=2 if weighted else None)
    return h


def core_periphery(rng, weighted=False, n_comp=None, connected_contiguous=False):
    """Several components, each a dense core (one or two large hyperedges over 8-24 nodes, a few more inside) with a
    sparse periphery hanging off it: pendant pairwise links, short paths, small pendant triples; plus isolated
    nodes and a singleton hyperedge.  Dense-and-sparse together is the shape in which a traversal that bounds,
    truncates or de-duplicates its frontier loses nodes (a pendant node is queued once, core nodes many times).
    Labels are non-contiguous ints inserted in a shuffled order."""
    import hypergraphx as hgx

    h = hgx.Hypergraph(weighted=weighted)
    nxt = [rng.choice([0, 100, -50])]

    def new():
        nxt[0] += rng.choice([1, 1, 2, 7])
        return nxt[0]

    edges = []
    for _ in range(1 if connected_contiguous else n_comp or rng.randint(1, 3)):
        core = [new() for _ in range(rng.randint(8, 24))]
        edges.append(tuple(core))
        if rng.random() < 0.5:
            edges.append(tuple(rng.sample(core, max(2, len(core) // 2))))
        for _ in range(rng.randint(0, 4)):
            edges.append(tuple(rng.sample(core, rng.randint(2, 4))))
        anchors = rng.sample(core, rng.randint(1, 3))
        for a in anchors:
            for _ in range(rng.randint(1, 5)):
                shape = rng.random()
                if shape < 0.5:  # pendant link
                    edges.append((a, new()))
                elif shape < 0.8:  # path of 2-4 links
                    prev = a
                    for _ in range(rng.randint(2, 4)):
                        x = new()
                        edges.append((prev, x))
                        prev = x
                else:  # pendant triple
                    edges.append((a, new(), new()))
    if connected_contiguous:  # one component, labels 0..N-1, nothing isolated (what the random walk requires)
        labs = sorted({x for e in edges for x in e})
        perm = list(range(len(labs)))
        rng.shuffle(perm)
        ren = dict(zip(labs, perm))
        edges = [tuple(ren[x] for x in e) for e in edges]
    else:
        edges.append((new(),))
    rng.shuffle(edges)
    for e in edges:
        e = list(e)
        rng.shuffle(e)
        h.add_edge(tuple(e), weight=rng.choice([0.5, 1, 2, 7]) if weighted else None)
    for _ in range(0 if connected_contiguous else rng.randint(0, 2)):
        h.add_node(new())
    return h


def sharing_256_nodes(rng):
    """Hyperedges that share 256, 257 and 258 nodes with one another (plus a few small ones): intersection sizes beyond a byte."""
    import hypergraphx as hgx

    base = rng.choice([0, 1000])
    A = tuple(range(base, base + 300))
    B = tuple(range(base, base + 256)) + tuple(range(base + 400, base + 440))
    C = tuple(range(base, base + 257)) + tuple(range(base + 500, base + 520))
    D = tuple(range(base, base + 258)) + (base + 600,)
    small = [(base, base + 700), (base + 700, base + 701, base + 1), (base + 299, base + 702)]
    return hgx.Hypergraph([A, B, C, D] + small)
