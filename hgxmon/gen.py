"""Scale inputs shared by several oracles (tens to hundreds of nodes, hundreds of hyperedges)."""


def big_hypergraph(rng, weighted=False, contiguous=False, connected=False, sizes=(1, 2, 2, 3, 4, 6), n=None, m=None, hub=None):
    import hypergraphx as hgx

    n = n or rng.randint(60, 120)
    nodes = list(range(n)) if contiguous else [5 * i - 100 for i in range(n)]
    h = hgx.Hypergraph(weighted=weighted)
    h.add_nodes(nodes)
    if connected:
        perm = nodes[:]
        rng.shuffle(perm)
        for i in range(0, n - 1):
            h.add_edge((perm[i], perm[i + 1]), weight=rng.choice([1, 2, 3]) if weighted else None)
    if hub is None:
        hub = rng.random() < 0.5
    if hub:  # one node in 40-80 hyperedges of mixed sizes
        hnode = nodes[rng.randrange(n)]
        for _ in range(rng.randint(40, 80)):
            k = min(n, max(2, rng.choice(list(sizes))))
            e = tuple({hnode, *rng.sample(nodes, k - 1)})
            if len(e) >= 2 and not h.check_edge(e):
                h.add_edge(e, weight=rng.choice([0.5, 1, 2, 7]) if weighted else None)
    for _ in range(m or rng.randint(150, 400)):
        e = tuple(rng.sample(nodes, min(n, rng.choice(list(sizes)))))
        if not h.check_edge(e):
            h.add_edge(e, weight=rng.choice([0.5, 1, 2, 7]) if weighted else None)
    return h


def big_directed(rng, weighted=False, n=None, m=None):
    import hypergraphx as hgx

    n = n or rng.randint(40, 80)
    nodes = [3 * i + 7 for i in range(n)]
    h = hgx.DirectedHypergraph(weighted=weighted)
    edges = []
    for _ in range(m or rng.randint(150, 300)):
        if edges and rng.random() < 0.25:
            s, t = rng.choice(edges)
            e = (t, s)
        else:
            k = rng.choice([2, 2, 3, 4, 5, 6])
            ns = rng.sample(nodes, k)
            cut = rng.randint(1, k - 1)
            e = (tuple(sorted(ns[:cut])), tuple(sorted(ns[cut:])))
        edges.append(e)
        h.add_edge(e, weight=2 if weighted else None)
    return h
