"""History driver for the container properties (C01-C04, reused by C05-C07, C19).

A history is a list of abstract operations.  Each is applied to the *real* object through
its public API; the event (op, outcome, observation after) is checked online against the
transition relation of models.Model, then the derived-query battery runs.
"""
import copy
import random

import numpy as np

from . import battery as bat
from .models import Model, State, sorted_key
from collections import Counter

from .observe import observe, lib_args, kind_of, key_from_lib

# -------------------------------------------------------------------------------------
# label universes (hostile: collisions, gaps, big/negative ints, strings with E/N/digits)
# -------------------------------------------------------------------------------------
UNIVERSES = {
    "small": [0, 1, 2, 3, 4, 5, 6, 7],
    "gaps": [10, 20, 40, 41, 70, 100, 300, 1000],
    "bigneg": [-7, -1, 0, 3, 2**31 + 7, 2**40, -(2**33), 12],
    "hashy": [-1, -2, 0, 2**61 - 1, 1, 2**61, -3, 5],  # pairs of distinct labels with equal hash()
    "str": ["a", "b", "E1", "N2", "10", "n", "zz", "E"],
    "ids": ["N1", "N0", "E0", "N3", "N2", "E1", "N10", "E2"],  # labels that look like the vertex ids projections generate, not in index order
    "npint": [np.int64(i) for i in (0, 1, 2, 5, 9, 11, 30, 31)],
    "float": [0.5, 1.5, -2.25, 3.0, 10.0, 7.75, 1e9, 0.1],
    "intfloat": [1, 2.5, 3, 4.5, -1, 0.25, 100, 7],
    "npfloat": [np.float64(x) for x in (0.5, 1.5, 2.25, -3.75, 10.5, 7.125, 0.1, 99.9)],
}
# label kinds that only SOME containers / functions accept (never drawn at random from UNIVERSES; asked for by name)
EXTRA_UNIVERSES = {
    "tuple": [(0, 0), (0, 1), (1, 0), (1, 1), (2, 0), (0, 2), (1, 2), (2, 1)],  # e.g. grid coordinates: comparable, hashable
}
LAYERS = [["L1", "L2"], ["a", "b", "c"], ["x", "y", "z", "E"], ["social", "work"], ["", "b"], [0, 1, 2],
          ["work", "work ", " work", "Work"]]  # (names that differ only in blanks or case are different layers)
WEIGHTS = [0.5, 1, 1.5, 2, 2.5, 3, 7, 2.0, 1.0, 0, 0.0, 0.1, 0.2, 1 / 3, 4e-12, 3e-12, 2**53 + 1, 2**60 + 3]  # (the last two: integers no float represents)
MDS = [None, {}, {"a": 1}, {"c": "x"}, {"a": 2, "n": {"k": [1, 2]}}, {"role": "hub", "t": None}, {"tags": ["x"]}, {"tags": ["y"], "a": 1}]
FIELDS = ["a", "c", "f", "role"]
VALUES = [0, 1, "v", [1, 2], {"q": 1}, None, 2.5, "", False]
BAD_TIMES = [-1, -3, 1.5, "2", None, 2.0]


def new_container(kind, weighted):
    import hypergraphx as hgx

    cls = {"H": hgx.Hypergraph, "D": hgx.DirectedHypergraph, "T": hgx.TemporalHypergraph,
           "M": hgx.MultiplexHypergraph}[kind]
    return cls(weighted=weighted)


class Cfg:
    def __init__(self, rng, kind, long=False, uni=None, weighted=None, big=False):
        self.kind = kind
        self.weighted = rng.random() < 0.5 if weighted is None else weighted
        self.uni_name = uni or rng.choice(list(UNIVERSES))
        u = list(UNIVERSES.get(self.uni_name) or EXTRA_UNIVERSES.get(self.uni_name) or UNIVERSES["gaps"])
        rng.shuffle(u)
        self.labels = u[: rng.randint(3, 8)]
        self.layers = rng.choice(LAYERS)
        self.tmax = rng.choice([1, 2, 3, 6])
        self.max_size = rng.choice([2, 3, 3, 4, 5])
        self.n_ops = rng.randint(150, 300) if long else rng.randint(5, 40)
        self.invalid_rate = rng.choice([0.0, 0.1, 0.15])
        self.hub = False
        if big == "hub" or (big is True and rng.random() < 0.5):
            # hub: few labels, very many hyperedges through each of them (degrees beyond 64), many re-insertions
            big = False
            self.hub = True
            self.uni_name = "gaps"
            self.labels = [10, 20, 40, 41, 70, 100, 300, 1000, 7][: rng.randint(8, 9)]
            self.max_size = 5
            self.n_ops = rng.randint(500, 900)
            self.invalid_rate = 0.0
        if big in (True, "scale"):  # scale: tens of labels, hundreds of hyperedges, hundreds of operations
            self.uni_name = "wide"
            base = rng.choice([0, 1000, -50])
            self.labels = [base + 3 * i for i in range(rng.randint(30, 60))]
            self.max_size = 6
            self.n_ops = rng.randint(400, 800)
        self.use_constructor = False  # start from a constructor call with edge lists / metadata (C01-C04 set this)
        self.avoid = set()  # op families to avoid (used while a finding is open)

    def describe(self):
        return {"kind": self.kind, "weighted": self.weighted, "universe": self.uni_name,
                "labels": [repr(x) for x in self.labels], "n_ops": self.n_ops}


class BuildCtx:
    """Context for a history that only BUILDS the input of another property's oracle.  The abstract model still judges
    every call: if the object is not what the calls should have produced, whatever is then measured on it would be
    compared with a reference derived from a wrong observation, so the mismatch is reported under the measuring
    property (prefix "input-build:") and the case ends.  Counters and samples of the build are not recorded."""

    def __init__(self, ctx, prop):
        self.ctx, self.prop = ctx, prop
        self.tier = getattr(ctx, "tier", "quick")

    def check(self, monitor, cond, mechanism, detail=None, abort=False):
        if not cond:
            self.violation(mechanism, detail() if callable(detail) else detail, abort=True)
        return True

    def violation(self, mechanism, detail=None, abort=False):
        from .monitor import CaseAbort

        if isinstance(detail, dict):
            detail = {k: v for k, v in detail.items() if k in ("trace", "raised", "problems", "error")}
        self.ctx.violation(f"{self.prop}:input-build:{mechanism}", detail)
        raise CaseAbort(mechanism)

    def __getattr__(self, k):  # tick / event / exc / set_add / distinct_add / note / sample / inconclusive_case
        return lambda *a, **kw: True


# -------------------------------------------------------------------------------------
# generation
# -------------------------------------------------------------------------------------
def rand_nodeset(rng, cfg, lo=1, hi=None):
    hi = min(hi or cfg.max_size, len(cfg.labels))
    lo = min(lo, hi)
    return frozenset(rng.sample(cfg.labels, rng.randint(lo, hi)))


def rand_key(rng, cfg, S, prefer_existing=0.4, fresh_only=False):
    kind = cfg.kind
    from .models import KEYS
    nonempty = [k for k in S.edges if KEYS[kind].size(k) > 0]
    if nonempty and not fresh_only and rng.random() < prefer_existing:
        return rng.choice(sorted(nonempty, key=lambda k: repr(sorted_key(k))))
    if kind == "H":
        return rand_nodeset(rng, cfg)
    if kind == "D":
        if len(cfg.labels) < 2:
            return None
        ns = list(rand_nodeset(rng, cfg, lo=2, hi=max(2, cfg.max_size)))
        rng.shuffle(ns)
        cut = rng.randint(1, len(ns) - 1)
        k = (frozenset(ns[:cut]), frozenset(ns[cut:]))
        if S.edges and rng.random() < 0.3:  # reversed / partially reversed existing key
            e = rng.choice(sorted(S.edges, key=lambda k: repr(sorted_key(k))))
            k = (e[1], e[0])
        return k
    if kind == "T":
        pool = getattr(cfg, "time_pool", None)
        t = rng.choice(pool) if pool else rng.randint(0, cfg.tmax)
        if S.edges and rng.random() < 0.4:  # same node set at another time
            e = rng.choice(sorted(S.edges, key=lambda k: repr(sorted_key(k))))
            return (t, e[1])
        return (t, rand_nodeset(rng, cfg))
    if kind == "M":
        l = rng.choice(cfg.layers)
        if S.edges and rng.random() < 0.4:  # same node set in another layer
            e = rng.choice(sorted(S.edges, key=lambda k: repr(sorted_key(k))))
            return (e[0], l)
        return (rand_nodeset(rng, cfg), l)


def absent_key(rng, cfg, S):
    for _ in range(20):
        k = rand_key(rng, cfg, S, fresh_only=True)
        if k is not None and k not in S.edges:
            return k
    return None


def rand_md(rng):
    return copy.deepcopy(rng.choice(MDS))


def rand_w(rng, cfg):
    if not cfg.weighted:
        return rng.choice([None, None, 1])
    return rng.choice(WEIGHTS + [None])


OPS_BY_KIND = {
    "H": ["add_node", "add_nodes", "add_edge", "add_edges", "remove_edge", "remove_edges", "remove_node",
          "remove_nodes", "set_weight", "set_node_metadata", "set_edge_metadata", "set_attr_node",
          "set_attr_edge", "rm_attr_node", "rm_attr_edge", "clear", "copy"],
    "D": ["add_node", "add_nodes", "add_edge", "add_edges", "remove_edge", "remove_edges", "remove_node",
          "remove_nodes", "set_weight", "set_node_metadata", "set_edge_metadata", "set_attr_node",
          "set_attr_edge", "rm_attr_node", "rm_attr_edge", "clear", "copy"],
    "T": ["add_node", "add_nodes", "add_edge", "add_edges", "remove_edge", "remove_node", "remove_nodes",
          "set_weight", "set_node_metadata", "set_edge_metadata", "set_attr_node", "set_attr_edge",
          "rm_attr_node", "rm_attr_edge", "clear", "copy"],
    "M": ["add_node", "add_nodes", "add_edge", "add_edges", "remove_edge", "remove_node", "set_weight",
          "set_attr_node", "set_attr_edge", "rm_attr_node", "rm_attr_edge"],
}
OP_WEIGHTS = {
    "add_node": 4, "add_nodes": 3, "add_edge": 25, "add_edges": 15, "remove_edge": 10, "remove_edges": 5,
    "remove_node": 9, "remove_nodes": 3, "set_weight": 8, "set_node_metadata": 3, "set_edge_metadata": 3,
    "set_attr_node": 2, "set_attr_edge": 2, "rm_attr_node": 1, "rm_attr_edge": 1, "clear": 1, "copy": 2,
}


class _Now:
    """cfg as seen by the generator for ONE live object: its weightedness is the object's current one (a weighted
    batch inserted into an unweighted container switches it to weighted; copies made before keep their own)."""

    def __init__(self, cfg, weighted):
        self.__dict__["_c"] = cfg
        self.__dict__["weighted"] = weighted

    def __getattr__(self, k):
        return getattr(self._c, k)


def gen_op(rng, cfg, S):
    """Returns (name, abstract-args).  Invalid calls are generated at cfg.invalid_rate."""
    cfg = _Now(cfg, S.weighted)
    kind = cfg.kind
    names = [n for n in OPS_BY_KIND[kind] if n not in cfg.avoid]
    if getattr(cfg, "hub", False):  # mostly insertions: the structure keeps growing
        wts = [OP_WEIGHTS[n] * (6 if n in ("add_edge", "add_edges") else 0 if n == "clear" else 0.03 if n in ("remove_node", "remove_nodes") else 0.3 if n in ("remove_edge", "remove_edges") else 1) for n in names]
    else:
        wts = [OP_WEIGHTS[n] for n in names]
    name = rng.choices(names, wts)[0]
    invalid = rng.random() < cfg.invalid_rate
    ekeys = sorted(S.edges, key=lambda k: repr(sorted_key(k)))
    nkeys = sorted(S.nodes, key=repr)
    absent_nodes = [n for n in (UNIVERSES.get(cfg.uni_name) or EXTRA_UNIVERSES.get(cfg.uni_name) or cfg.labels) if n not in S.nodes]

    if name == "add_node":
        pool = cfg.labels if rng.random() < 0.7 or not nkeys else nkeys
        return name, {"n": rng.choice(pool), "md": rand_md(rng)}
    if name == "add_nodes":
        ns = rng.sample(cfg.labels, rng.randint(1, min(3, len(cfg.labels))))
        mds = None
        if kind != "D" and rng.random() < 0.5:
            mds = {n: (rand_md(rng) or {}) for n in ns}
            if rng.random() < 0.2:
                # a metadata map that does not cover every listed node (first, middle or last; the empty map included):
                # the batch is refused and must leave no trace, whichever node is the uncovered one
                for n in rng.sample(ns, rng.randint(1, len(ns))):
                    del mds[n]
        return name, {"ns": ns, "mds": mds}
    if name == "add_edge":
        key = rand_key(rng, cfg, S)
        if key is None:
            return "add_node", {"n": rng.choice(cfg.labels), "md": None}
        w, md = rand_w(rng, cfg), rand_md(rng)
        a = {"key": key, "w": w, "md": md}
        if invalid:
            if kind == "T" and rng.random() < 0.6:
                a.update(valid=False, must_raise=True, bad_time=rng.choice(BAD_TIMES))
            elif not cfg.weighted:
                a.update(valid=False, w=rng.choice([2, 0.5, 3.5]))
        return name, a
    if name == "add_edges":
        n = rng.randint(1, 4)
        items, seen = [], set()
        for _ in range(n):
            key = rand_key(rng, cfg, S, prefer_existing=0.3)
            if key is None:
                continue
            if key in seen and rng.random() < 0.7:
                continue
            seen.add(key)
            items.append([key, None, rand_md(rng)])
        if not items:
            return "add_node", {"n": rng.choice(cfg.labels), "md": None}
        # a weights list handed to an UNWEIGHTED container: the library announces that it switches to weighted
        # (Directed/Temporal/Multiplex) or that it ignores them (Hypergraph); either is admissible, a refused batch
        # must leave the container as it was (still unweighted)
        switch = (not cfg.weighted) and rng.random() < 0.06 and not getattr(cfg, "no_weight_switch", False)
        use_w = (cfg.weighted and rng.random() < 0.7) or switch
        if use_w:
            for it in items:
                it[1] = rng.choice(WEIGHTS)
        use_md = rng.random() < 0.5
        if not use_md:
            for it in items:
                it[2] = None
        keys = [it[0] for it in items]
        a = {"items": [tuple(it) for it in items], "use_w": use_w, "use_md": use_md,
             "may_refuse": use_w and len(set(keys)) != len(keys)}
        if (invalid or (switch and rng.random() < 0.4)) and use_w and len(items) > 1 and rng.random() < 0.5:
            a.update(valid=False, short_weights=True)  # weights list shorter than edge list
        return name, a
    if name == "remove_edge":
        if invalid or not ekeys:
            k = absent_key(rng, cfg, S)
            if k is None:
                return "add_node", {"n": rng.choice(cfg.labels), "md": None}
            return name, {"key": k}
        return name, {"key": rng.choice(ekeys)}
    if name == "remove_edges":
        if not ekeys:
            return "add_node", {"n": rng.choice(cfg.labels), "md": None}
        if rng.random() < 0.08 and len(ekeys) <= 12:
            # what the library listed is handed straight back to it: "remove everything you have"
            return name, {"keys": list(ekeys), "via_listing": True}
        ks = rng.sample(ekeys, rng.randint(1, min(3, len(ekeys))))
        if invalid:
            k = absent_key(rng, cfg, S)
            if k is not None:
                ks.insert(rng.randint(0, len(ks)), k)
        return name, {"keys": ks}
    if name == "remove_node":
        keep = rng.random() < 0.5
        if (invalid and absent_nodes) or not nkeys:
            if not absent_nodes:
                return "add_node", {"n": rng.choice(cfg.labels), "md": None}
            return name, {"n": rng.choice(absent_nodes), "keep": keep}
        return name, {"n": rng.choice(nkeys), "keep": keep}
    if name == "remove_nodes":
        if not nkeys:
            return "add_node", {"n": rng.choice(cfg.labels), "md": None}
        ns = rng.sample(nkeys, rng.randint(1, min(2, len(nkeys))))
        if invalid and absent_nodes:
            ns.insert(rng.randint(0, len(ns)), rng.choice(absent_nodes))
        return name, {"ns": ns, "keep": rng.random() < 0.5}
    if name == "set_weight":
        if invalid or not ekeys:
            if ekeys and not cfg.weighted and rng.random() < 0.5:
                return name, {"key": rng.choice(ekeys), "w": 2.5}
            k = absent_key(rng, cfg, S)
            if k is None:
                return "add_node", {"n": rng.choice(cfg.labels), "md": None}
            return name, {"key": k, "w": 1}
        return name, {"key": rng.choice(ekeys), "w": rng.choice(WEIGHTS) if cfg.weighted else 1}
    if name in ("set_node_metadata", "set_attr_node", "rm_attr_node"):
        if (invalid and absent_nodes) or not nkeys:
            if not absent_nodes:
                return "add_node", {"n": rng.choice(cfg.labels), "md": None}
            n = rng.choice(absent_nodes)
        else:
            n = rng.choice(nkeys)
        if name == "set_node_metadata":
            return name, {"n": n, "md": rand_md(rng) or {}}
        if name == "set_attr_node":
            return name, {"n": n, "f": rng.choice(FIELDS), "v": copy.deepcopy(rng.choice(VALUES))}
        f = rng.choice(FIELDS)
        if n in S.nodes and S.nodes[n] and not invalid:
            f = rng.choice(sorted(S.nodes[n]))
        return name, {"n": n, "f": f}
    if name in ("set_edge_metadata", "set_attr_edge", "rm_attr_edge"):
        if invalid or not ekeys:
            k = absent_key(rng, cfg, S)
            if k is None:
                return "add_node", {"n": rng.choice(cfg.labels), "md": None}
        else:
            k = rng.choice(ekeys)
        if name == "set_edge_metadata":
            return name, {"key": k, "md": rand_md(rng) or {}}
        if name == "set_attr_edge":
            return name, {"key": k, "f": rng.choice(FIELDS), "v": copy.deepcopy(rng.choice(VALUES))}
        f = rng.choice(FIELDS)
        if k in S.edges and S.edges[k][1] and rng.random() < 0.8:
            f = rng.choice(sorted(S.edges[k][1]))
        return name, {"key": k, "f": f}
    return name, {}


def hub_script(rng, cfg):
    """A scripted history (same abstract op format as gen_op) in which ONE node ends up in 70-140 hyperedges -
    for a directed container mostly in one role - and OLD hyperedges (inserted long before the node's most
    recent ones) are then re-inserted, re-weighted, removed and inserted again.  Look-back windows, per-node
    caps and tail-only de-duplication in the incidence bookkeeping only show beyond a few dozen hyperedges
    per node, which random histories over 8 labels rarely reach."""
    kind = cfg.kind
    base = rng.choice([0, 1000, -300])
    hub = base
    leaves = [base + 2 * i + 1 for i in range(40 if not getattr(cfg, "large_hub", False) else 120)]
    cfg.labels = [hub] + leaves
    cfg.uni_name = "wide"
    role = rng.choice(["source", "target"])
    keys, seen = [], set()
    n_keys = rng.randint(70, 140) if not getattr(cfg, "large_hub", False) else rng.randint(260, 320)
    while len(keys) < n_keys:
        others = rng.sample(leaves, rng.randint(1, 3))
        if kind == "H":
            k = frozenset([hub] + others)
        elif kind == "D":
            r = role if rng.random() < 0.85 else ("target" if role == "source" else "source")
            cut = rng.randint(0, len(others) - 1)
            a, b = frozenset([hub] + others[:cut]), frozenset(others[cut:])
            k = (a, b) if r == "source" else (b, a)
        elif kind == "T":
            k = (rng.randint(0, 3), frozenset([hub] + others))
        else:
            k = (frozenset([hub] + others), rng.choice(cfg.layers))
        if k not in seen:
            seen.add(k)
            keys.append(k)

    def w():
        return rand_w(rng, cfg)

    def add(k):
        return "add_edge", {"key": k, "w": w(), "md": rand_md(rng)}

    def add_many(ks):
        use_w = cfg.weighted and rng.random() < 0.7
        use_md = rng.random() < 0.5
        return "add_edges", {"items": [(k, rng.choice(WEIGHTS) if use_w else None, rand_md(rng) if use_md else None) for k in ks],
                             "use_w": use_w, "use_md": use_md, "may_refuse": False}

    ops = [("add_node", {"n": hub, "md": {"role": "hub"}})]
    i = 0
    while i < len(keys):  # phase 1: the hub's hyperedges, singly and in batches
        if rng.random() < 0.3:
            ops.append(add_many(keys[i:i + 3]))
            i += 3
        else:
            ops.append(add(keys[i]))
            i += 1
    old = keys[: max(5, len(keys) - 66)]  # older than the hub's 66 most recent hyperedges
    for _ in range(rng.randint(10, 20)):  # phase 2: re-insert old ones (weight accumulation / metadata update)
        ops.append(add(rng.choice(old)) if rng.random() < 0.7 else add_many(rng.sample(old, min(len(old), 2))))
    for k in rng.sample(keys, 8):
        ops.append(("set_weight", {"key": k, "w": rng.choice(WEIGHTS) if cfg.weighted else 1}))
        ops.append(("set_edge_metadata", {"key": k, "md": rand_md(rng) or {}}))
    gone = rng.sample(keys, 12)
    for k in gone[:6]:  # phase 3: removals, also of old and of re-inserted ones
        ops.append(("remove_edge", {"key": k}))
    ops.append(("remove_edges", {"keys": gone[6:9]}))
    ops.append(("remove_node", {"n": rng.choice(leaves), "keep": rng.random() < 0.5}))
    for k in gone[:5] + rng.sample(old, min(len(old), 5)):  # phase 4: back again, and old ones once more
        ops.append(add(k))
    ops.append(("copy", {}))
    for k in rng.sample(old, min(len(old), 4)):
        ops.append(add(k))
    # only what the container offers: a batch removal becomes single removals, a metadata replacement an attribute update
    out = []
    for name, a in ops:
        if name in OPS_BY_KIND[kind]:
            out.append((name, a))
        elif name == "remove_edges":
            out.extend(("remove_edge", {"key": k}) for k in a["keys"])
        elif name == "set_edge_metadata":
            out.append(("set_attr_edge", {"key": a["key"], "f": rng.choice(FIELDS), "v": copy.deepcopy(rng.choice(VALUES))}))
    return out


# -------------------------------------------------------------------------------------
# applying an abstract op to the real object
# -------------------------------------------------------------------------------------
def apply_op(h, kind, op, rng, keep=None):
    """Calls the public API.  Fresh deep copies of every mutable argument are passed so
    that aliasing with harness-owned objects cannot blur the observation.  `keep` (a dict) receives the very argument
    objects of a batched insertion, so that the caller can hand them to a second call (`reuse_arguments`)."""
    name, a = op
    dc = copy.deepcopy
    if name == "add_node":
        return h.add_node(a["n"], dc(a["md"])) if a["md"] is not None or rng.random() < 0.5 else h.add_node(a["n"])
    if name == "add_nodes":
        if a["mds"] is None:
            return h.add_nodes(list(a["ns"]))
        if kind == "M":
            return h.add_nodes(list(a["ns"]), node_metadata=dc(a["mds"]))
        return h.add_nodes(list(a["ns"]), metadata=dc(a["mds"]))
    if name == "add_edge":
        args = list(lib_args(kind, a["key"], rng))
        if "bad_time" in a:
            args[1] = a["bad_time"]
        kw = {}
        if a["w"] is not None:
            kw["weight"] = a["w"]
        if a["md"] is not None:
            kw["metadata"] = dc(a["md"])
        return h.add_edge(*args, **kw)
    if name == "add_edges":
        largs = [lib_args(kind, it[0], rng) for it in a["items"]]
        edge_list = [x[0] for x in largs]
        pos = [edge_list]
        if kind in ("T", "M"):
            pos.append([x[1] for x in largs])
        kw = {}
        if a["use_w"]:
            ws = [it[1] for it in a["items"]]
            if a.get("short_weights"):
                ws = ws[:-1]
            kw["weights"] = ws
        if a["use_md"]:
            kw["metadata"] = [dc(it[2]) if it[2] is not None else {} for it in a["items"]]
        if keep is not None:
            keep["call"] = (pos, kw)
        return h.add_edges(*pos, **kw)
    if name == "remove_edge":
        args = lib_args(kind, a["key"], rng)
        if kind == "M":
            return h.remove_edge((args[0], args[1]))
        return h.remove_edge(*args)
    if name == "remove_edges":
        if a.get("via_listing"):
            return h.remove_edges(h.get_edges())
        return h.remove_edges([lib_args(kind, k, rng)[0] for k in a["keys"]])
    if name == "remove_node":
        return h.remove_node(a["n"], keep_edges=a["keep"]) if a["keep"] or rng.random() < 0.5 else h.remove_node(a["n"])
    if name == "remove_nodes":
        return h.remove_nodes(list(a["ns"]), keep_edges=a["keep"])
    if name == "set_weight":
        return h.set_weight(*lib_args(kind, a["key"], rng), a["w"])
    if name == "set_node_metadata":
        return h.set_node_metadata(a["n"], dc(a["md"]))
    if name == "set_edge_metadata":
        return h.set_edge_metadata(*lib_args(kind, a["key"], rng), dc(a["md"]))
    if name == "set_attr_node":
        return h.set_attr_to_node_metadata(a["n"], a["f"], dc(a["v"]))
    if name == "set_attr_edge":
        return h.set_attr_to_edge_metadata(*lib_args(kind, a["key"], rng), a["f"], dc(a["v"]))
    if name == "rm_attr_node":
        return h.remove_attr_from_node_metadata(a["n"], a["f"])
    if name == "rm_attr_edge":
        return h.remove_attr_from_edge_metadata(*lib_args(kind, a["key"], rng), a["f"])
    if name == "clear":
        return h.clear()
    raise ValueError(name)


def op_repr(op):
    name, a = op
    out = {}
    for k, v in a.items():
        if k == "key":
            out[k] = repr(sorted_key(v))
        elif k == "keys":
            out[k] = [repr(sorted_key(x)) for x in v]
        elif k == "items":
            out[k] = [[repr(sorted_key(x[0])), x[1], x[2]] for x in v]
        else:
            out[k] = v if not isinstance(v, (set, frozenset)) else sorted(v, key=repr)
    return [name, out]


# -------------------------------------------------------------------------------------
# constructor path: the container is born from edge_list / weights / metadata arguments
# -------------------------------------------------------------------------------------
def construct_initial(ctx, rng, cfg, model, tag):
    """Builds the container through its constructor and checks the observation against the model
    state reached by the equivalent call sequence (add_node per node_metadata entry, then add_edges)."""
    import hypergraphx as hgx

    kind = cfg.kind
    cls = {"H": hgx.Hypergraph, "D": hgx.DirectedHypergraph, "T": hgx.TemporalHypergraph, "M": hgx.MultiplexHypergraph}[kind]
    S0 = State(cfg.weighted)
    node_md = {}
    for n in rng.sample(cfg.labels, rng.randint(0, min(3, len(cfg.labels)))):
        node_md[n] = rand_md(rng) or {"k": 1}
    items, seen = [], set()
    for _ in range(rng.randint(0, 5)):
        key = rand_key(rng, cfg, S0, fresh_only=True)
        if key is None or key in seen:
            continue
        seen.add(key)
        items.append([key, rng.choice(WEIGHTS) if cfg.weighted else None, rand_md(rng)])
    use_w = cfg.weighted and bool(items) and rng.random() < 0.7
    if not use_w:
        for it in items:
            it[1] = None
    use_md = bool(items) and rng.random() < 0.5
    if not use_md:
        for it in items:
            it[2] = None
    hgmd = rng.choice([None, None, {"name": "g"}, {"src": [1, 2], "n": None}])
    # model: the documented equivalent call sequence
    states = [S0]
    for n, md in node_md.items():
        states = [T2 for T in states for T2 in model.outcome(T, ("add_node", {"n": n, "md": copy.deepcopy(md)})).states][:32]
    if items:
        op = ("add_edges", {"items": [tuple(it) for it in items], "use_w": use_w, "use_md": use_md, "may_refuse": False})
        states = [T2 for T in states for T2 in model.outcome(T, op).states][:64]
    largs = [lib_args(kind, it[0], rng) for it in items]
    kw = {"weighted": cfg.weighted}
    embedded = kind in ("T", "M") and rng.random() < 0.5
    if items or rng.random() < 0.5:
        if kind in ("H", "D"):
            kw["edge_list"] = [x[0] for x in largs]
        elif kind == "T":
            if embedded:
                kw["edge_list"] = [(x[1], x[0]) for x in largs]
            else:
                kw["edge_list"], kw["time_list"] = [x[0] for x in largs], [x[1] for x in largs]
        else:
            if embedded:
                kw["edge_list"] = [(x[0], x[1]) for x in largs]
            else:
                kw["edge_list"], kw["edge_layer"] = [x[0] for x in largs], [x[1] for x in largs]
    if use_w:
        kw["weights"] = [it[1] for it in items]
    if use_md:
        kw["edge_metadata"] = [copy.deepcopy(it[2]) if it[2] is not None else {} for it in items]
    if node_md:
        kw["node_metadata"] = copy.deepcopy(node_md)
    if hgmd is not None:
        kw["hypergraph_metadata"] = copy.deepcopy(hgmd)

    def wit():
        return {"cfg": cfg.describe(), "constructor_kwargs": {k: repr(v)[:300] for k, v in kw.items()}}

    ctx.event("op:constructor")
    try:
        h = cls(**kw)
    except Exception as e:
        ctx.violation(f"{tag}:constructor:raised:{type(e).__name__}", dict(wit(), error=repr(e)), abort=True)
    P = []
    S = observe(h, P)
    ok = any(not R.diff(S) for R in states) and not P
    if not ok:
        best = min(states, key=lambda R: len(R.diff(S)))
        ctx.check(f"{tag}:transition", False, f"{tag}:constructor:" + ",".join(best.diff(S) + P), lambda: dict(wit(), observed=S.describe(), expected=best.describe()), abort=True)
    else:
        ctx.tick(f"{tag}:transition")
    exp_hgmd = dict(hgmd or {})
    exp_hgmd.update({"weighted": cfg.weighted, "type": cls.__name__})
    ctx.check(f"{tag}:transition", S.hgmd == exp_hgmd, f"{tag}:constructor:hypergraph-metadata", lambda: dict(wit(), observed=S.hgmd, expected=exp_hgmd), abort=True)
    return h, S


def zlib_coin(a):
    """a deterministic coin that does not consume the case's random stream"""
    import zlib

    return zlib.crc32(repr([repr(sorted_key(it[0])) for it in a["items"]]).encode()) % 2 == 0


def reuse_arguments(ctx, tag, kind, model, weighted, op, call_args, wit):
    """A client that built its hyperedge / weights / metadata lists once hands the SAME objects to a second call (here: the
    same batch into a fresh container).  The second container must be what the model makes of the original values: a library
    that rewrote the caller's lists during the first call (merged weights in place, sorted, popped) shows here - and only
    here, the first container being correct."""
    pos, kw = call_args
    name, a = op
    if len(a["items"]) > 1 and not a.get("short_weights") and zlib_coin(a):
        # ... paired with the hyperedges in another order (the weights / metadata lists are still the caller's original objects)
        items = a["items"]
        n = len(items)
        op = (name, dict(a, items=[(items[n - 1 - i][0], items[i][1], items[i][2]) for i in range(n)],
                         may_refuse=a.get("may_refuse")))
        pos = [list(reversed(p)) for p in pos]
    g = new_container(kind, weighted)
    S0 = observe(g)
    out0 = model.outcome(S0, op)
    if out0.unknown:
        return
    ctx.event("arguments-handed-to-a-second-call")
    try:
        g.add_edges(*pos, **kw)
    except Exception as e:
        ctx.check(f"{tag}:transition", out0.may_raise, f"{tag}:arguments-handed-to-a-second-call:add_edges:raised:{type(e).__name__}",
                  lambda: dict(wit(), error=repr(e)), abort=True)
        return
    P = []
    Sg = observe(g, P)
    ok = not P and not out0.must_raise and any(not R.diff(Sg) for R in out0.states)
    if not ok and out0.states:
        best = min(out0.states, key=lambda R: len(R.diff(Sg)))
        ctx.check(f"{tag}:transition", False, f"{tag}:arguments-handed-to-a-second-call:add_edges:" + ",".join(best.diff(Sg) + P),
                  lambda: dict(wit(), second_container=Sg.describe(), expected=best.describe()), abort=True)
    else:
        ctx.tick(f"{tag}:transition")


# -------------------------------------------------------------------------------------
# running a history under monitoring
# -------------------------------------------------------------------------------------
def run_history(ctx, rng, cfg, ops=None, battery_every=1, after_event=None, tag=None, raw=None):
    """Generates (or replays `ops`) a history on a fresh container.  Returns
    (live objects [(h, State)], trace) where trace is the list of executed ops."""
    kind = cfg.kind
    tag = tag or kind
    model = Model(kind)
    if ops is None and getattr(cfg, "use_constructor", False):
        h, S = construct_initial(ctx, rng, cfg, model, tag)
    else:
        h = new_container(kind, cfg.weighted)
        S = observe(h)
    live = [[h, S]]
    trace = []
    raw_ops = [] if raw is None else raw
    flags = {"removal": False, "reinsert": False}
    n_ops = cfg.n_ops if ops is None else len(ops)
    for i in range(n_ops):
        which = rng.randrange(len(live))
        h, S = live[which]
        op = gen_op(rng, cfg, S) if ops is None else ops[i]
        name, a = op
        trace.append(op_repr(op))
        raw_ops.append(op)
        ctx.event(f"op:{name}")
        if name == "copy":
            try:
                h2 = h.copy()
            except Exception as e:
                ctx.violation(f"{tag}:copy:raised:{type(e).__name__}", {"trace": trace}, abort=True)
            P = []
            S2 = observe(h2, P)
            ctx.check(f"{tag}:transition", S2.same(S, with_hgmd=True) and not P, f"{tag}:copy:differs:" + ",".join(S2.diff(S, True) + P),
                      lambda: {"trace": trace}, abort=True)
            if len(live) < 3:
                live.append([h2, S2])
            continue
        out = model.outcome(S, op)
        if out.unknown:
            ctx.inconclusive_case("model-branching-cap")
        if name in ("remove_edge", "remove_edges", "remove_node", "remove_nodes", "clear"):
            flags["removal"] = True
        if name in ("add_edge", "add_edges"):
            ks = [a["key"]] if name == "add_edge" else [it[0] for it in a["items"]]
            if any(k in S.edges for k in ks):
                flags["reinsert"] = True
        held = None
        if len(S.edges) <= 40 and i % 3 == 0:
            # listings asked BEFORE the call are kept by the caller: they must still describe the state they were asked in
            try:
                held = (h.get_edges(), h.get_nodes())
            except Exception:
                held = None
        raised = None
        keep = {}
        try:
            apply_op(h, kind, op, rng, keep)
        except Exception as e:  # the client boundary: any exception is a rejection
            raised = e
            ctx.exc(name, e)
        if held is not None:
            try:
                ok_held = Counter(key_from_lib(kind, e) for e in held[0]) == Counter(S.edges.keys()) and Counter(held[1]) == Counter(S.nodes.keys())
            except Exception:
                ok_held = False
            ctx.check(f"{tag}:listings-are-snapshots", ok_held, f"{tag}:listing-returned-earlier-changed-after:{name}", lambda: {"trace": trace[-6:], "held_edges": repr(held[0])[:300]}, abort=True)
            # (what a client does to a container it was handed, by means other than library calls, is outside every property's
            # histories: the listings are only compared, never edited - DESIGN 2.3)
            held = None
        P = []
        try:
            S_after = observe(h, P)
        except Exception as e:
            ctx.violation(f"{tag}:observe-raised-after:{name}:{type(e).__name__}",
                          {"trace": trace, "error": repr(e)}, abort=True)
        if P:
            ctx.violation(f"{tag}:inconsistent-views-after:{name}:" + P[0], {"trace": trace, "problems": P}, abort=True)

        def wit():
            return {"cfg": cfg.describe(), "trace": trace, "raised": repr(raised),
                    "observed": S_after.describe(), "before": S.describe()}

        if out.unknown:
            pass
        elif raised is not None:
            ctx.event("rejected")
            ctx.check(f"{tag}:rejection-admissible", out.may_raise,
                      f"{tag}:spurious-rejection:{name}:{type(raised).__name__}", wit, abort=True)
            rej = out.rejected if out.rejected is not None else [S]
            ok = any(not R.diff(S_after) for R in rej)
            ctx.check(f"{tag}:rejected-leaves-state", ok,
                      f"{tag}:rejected-op-changed-state:{name}:" + ",".join(S_after.diff(S)), wit, abort=True)
        else:
            ctx.check(f"{tag}:must-reject", not out.must_raise, f"{tag}:accepted-invalid:{name}", wit, abort=True)
            ok = any(not R.diff(S_after) for R in out.states)
            if not ok:
                best = min(out.states, key=lambda R: len(R.diff(S_after)))
                ctx.check(f"{tag}:transition", False,
                          f"{tag}:transition-mismatch:{name}:" + ",".join(best.diff(S_after)),
                          lambda: dict(wit(), expected=best.describe()), abort=True)
            else:
                ctx.tick(f"{tag}:transition")
        live[which][1] = S_after
        if raised is None and "call" in keep and not out.unknown and rng.random() < 0.4:
            reuse_arguments(ctx, tag, kind, model, S.weighted, op, keep["call"], wit)
        # other live objects (copies) must be unaffected
        for j, (g, Sg) in enumerate(live):
            if j != which:
                Pg = []
                Sg2 = observe(g, Pg)
                ctx.check(f"{tag}:copy-independent", Sg2.same(Sg) and not Pg,
                          f"{tag}:mutation-leaked-through-copy:{name}", wit, abort=True)
        if battery_every and (i % battery_every == 0 or i == n_ops - 1):
            bat.battery(ctx, live[which][0], S_after, rng, tag=tag, wit=wit, full=getattr(cfg, "full_battery", False))
            if kind in ("T", "M") or rng.random() < 0.2:  # queries/derivations must not mutate
                Pq = []
                S_q = observe(live[which][0], Pq)
                ctx.check(f"{tag}:queries-do-not-mutate", S_q.same(S_after, with_hgmd=True) and not Pq,
                          f"{tag}:query-mutated-container:" + ",".join(S_q.diff(S_after, True) + Pq), wit, abort=True)
        ctx.set_add("states", S_after.freeze())
        if after_event is not None:
            after_event(live[which][0], S_after, op, wit)
    final = live[0][1]
    if flags["removal"] and flags["reinsert"]:
        ctx.distinct_add(final.freeze())
    return live, trace


# -------------------------------------------------------------------------------------
# witness minimisation (ddmin over the operation list)
# -------------------------------------------------------------------------------------
def _fails(cfg, ops, mech_prefix, tag, seed, battery_every=1):
    from .monitor import Ctx, CaseAbort

    c = Ctx("min", 0, "quick")
    try:
        run_history(c, random.Random(seed), cfg, ops=list(ops), battery_every=battery_every, tag=tag)
    except CaseAbort:
        pass
    except Exception:
        return False
    return any(m.startswith(mech_prefix) for m in c.viol_counts)


def minimise(cfg, ops, mechanism, tag, seed=1, budget=400):
    """Smallest sub-list of ops (found by ddmin) that still produces a violation of the same
    mechanism on a fresh object.  Returns op_repr list, or None if not reproducible."""
    mech = mechanism
    ops = list(ops)
    if not _fails(cfg, ops, mech, tag, seed):
        return None
    n, calls = 2, 0
    while len(ops) >= 2 and calls < budget:
        chunk = max(1, len(ops) // n)
        reduced = False
        for i in range(0, len(ops), chunk):
            cand = ops[:i] + ops[i + chunk:]
            calls += 1
            if cand and _fails(cfg, cand, mech, tag, seed):
                ops, n, reduced = cand, max(n - 1, 2), True
                break
        if not reduced:
            if chunk == 1:
                break
            n = min(len(ops), n * 2)
    return ops


def witness_of(cfg, ops, tag, seed=1):
    """re-run a (minimised) op list and return the first violation it produces"""
    from .monitor import Ctx, CaseAbort

    c = Ctx("min", 0, "quick")
    try:
        run_history(c, random.Random(seed), cfg, ops=list(ops), battery_every=1, tag=tag)
    except CaseAbort:
        pass
    return c.violations[0] if c.violations else None


# -------------------------------------------------------------------------------------
# bounded-exhaustive histories: every sequence of length L over a small concrete alphabet
# -------------------------------------------------------------------------------------
def alphabet(kind, weighted):
    """A small alphabet of concrete abstract operations over the labels a < b < c (all the interesting
    collisions: permuted re-insertion, nested hyperedges, shrink-onto-existing, batch with repeats, copy, clear)."""
    a, b, c = 10, 20, 40
    w = (lambda x: x) if weighted else (lambda x: None)
    fs = frozenset

    def key(nodes, i=0):
        if kind == "H":
            return fs(nodes)
        if kind == "D":
            nodes = list(nodes)
            return (fs(nodes[:1]), fs(nodes[1:])) if i == 0 else (fs(nodes[1:]), fs(nodes[:1]))
        if kind == "T":
            return (i, fs(nodes))
        return (fs(nodes), ["L1", "L2"][i])

    k_ab, k_ab2, k_abc, k_bc = key([a, b]), key([a, b], 1), key([a, b, c]), key([b, c])
    A = [
        ("add_node", {"n": c, "md": {"k": 1}}),
        ("add_edge", {"key": k_ab, "w": w(2), "md": {"m": 1}}),
        ("add_edge", {"key": k_ab, "w": w(0.5), "md": None}),
        ("add_edge", {"key": k_ab2, "w": w(1.5), "md": None}),
        ("add_edge", {"key": k_abc, "w": w(3), "md": {"m": 2}}),
        ("add_edge", {"key": k_bc, "w": None, "md": None}),
        ("add_edges", {"items": [(k_bc, w(1), None), (k_abc, w(2.5), None)], "use_w": bool(weighted), "use_md": False, "may_refuse": False}),
        ("remove_edge", {"key": k_ab}),
        ("remove_edge", {"key": k_abc}),
        ("remove_node", {"n": a, "keep": False}),
        ("remove_node", {"n": a, "keep": True}),
        ("remove_node", {"n": c, "keep": True}),
        ("set_weight", {"key": k_ab, "w": 7 if weighted else 1}),
        ("set_attr_node", {"n": a, "f": "f", "v": 1}),
        ("set_attr_edge", {"key": k_bc, "f": "f", "v": [1]}),
    ]
    if kind != "M":
        A += [("clear", {}), ("copy", {})]
    if kind != "D":
        A.append(("add_edge", {"key": key([a]), "w": w(1), "md": None}))  # singleton hyperedge
    return A


def exhaustive_history(ctx, rng, kind, weighted, number, length, tag):
    A = alphabet(kind, weighted)
    ops = []
    x = number
    for _ in range(length):
        ops.append(copy.deepcopy(A[x % len(A)]))
        x //= len(A)
    cfg = Cfg(random.Random(0), kind, weighted=weighted, uni="gaps")
    cfg.labels = [10, 20, 40]
    cfg.full_battery = True
    return run_history(ctx, rng, cfg, ops=ops, battery_every=1, tag=tag)
