"""Executable abstract models of the four containers (sets and dicts only).

State = (weighted, nodes: {n: md}, edges: {key: [w, md]}, hgmd).  Keys per container type:
    H: frozenset(nodes)          D: (frozenset(src), frozenset(tgt))
    T: (time, frozenset(nodes))  M: (frozenset(nodes), layer)

`candidates(S, op)` is the transition *relation*: the list of abstract states a correct
implementation may be in after `op` (DESIGN.md section 2.3 lists the leniencies), plus flags
saying whether the call may / must raise.  `prefix_states` gives the states admissible after
a *rejected* call (unchanged, or a prefix of a documented element-by-element batch).
"""
import copy as _copy
import math


def weq(a, b):
    """weights are equal up to the last bits (sums of non-dyadic floats may be associated differently)"""
    if a == b:
        return True
    if isinstance(a, int) and isinstance(b, int):
        return False  # integers are exact, however large
    try:
        if (isinstance(a, int) or isinstance(b, int)) and abs(a) >= 2 ** 53:
            return False  # an integer weight beyond 2**53 that came back as the nearest float is a changed weight
        return math.isclose(a, b, rel_tol=1e-12, abs_tol=0.0)
    except TypeError:
        return False


class State:
    __slots__ = ("weighted", "nodes", "edges", "hgmd", "replace_hgmd")

    def __init__(self, weighted, nodes=None, edges=None, hgmd=None):
        self.replace_hgmd = False  # (used by C07's content generator only)
        self.weighted = weighted
        self.nodes = nodes if nodes is not None else {}
        self.edges = edges if edges is not None else {}
        self.hgmd = hgmd

    def copy(self):
        return State(
            self.weighted,
            _copy.deepcopy(self.nodes),
            {k: [v[0], _copy.deepcopy(v[1])] for k, v in self.edges.items()},
            _copy.deepcopy(self.hgmd),
        )

    def same(self, other, with_hgmd=False):
        return not self.diff(other, with_hgmd)

    def diff(self, other, with_hgmd=False):
        """Names of the aspects in which two states differ."""
        d = []
        if bool(self.weighted) != bool(other.weighted):
            d.append("weighted")
        if set(self.nodes) != set(other.nodes):
            d.append("nodes")
        elif self.nodes != other.nodes:
            d.append("node_md")
        if set(self.edges) != set(other.edges):
            d.append("edges")
        else:
            if any(not weq(self.edges[k][0], other.edges[k][0]) for k in self.edges):
                d.append("weights")
            if any(self.edges[k][1] != other.edges[k][1] for k in self.edges):
                d.append("edge_md")
        if with_hgmd and self.hgmd != other.hgmd:
            d.append("hg_md")
        return d

    def freeze(self):
        return (
            self.weighted,
            tuple(sorted((repr(n), repr(m)) for n, m in self.nodes.items())),
            tuple(sorted((repr(sorted_key(k)), repr(v[0]), repr(v[1])) for k, v in self.edges.items())),
        )

    def describe(self):
        return {
            "weighted": self.weighted,
            "nodes": {repr(n): m for n, m in self.nodes.items()},
            "edges": {repr(sorted_key(k)): v for k, v in self.edges.items()},
        }


class Flex:
    """A set of admissible states: per key the admissible [w, md] alternatives; keys in
    `optional` may be absent."""

    def __init__(self, weighted, nodes):
        self.weighted = weighted
        self.nodes = nodes
        self.edges = {}
        self.optional = set()
        self.hgmd = None

    def diff(self, obs, with_hgmd=False):
        """aspects in which the observed State `obs` is outside this set"""
        d = []
        if bool(self.weighted) != bool(obs.weighted):
            d.append("weighted")
        if set(self.nodes) != set(obs.nodes):
            d.append("nodes")
        elif self.nodes != obs.nodes:
            d.append("node_md")
        need = set(self.edges) - self.optional
        if not (need <= set(obs.edges) <= set(self.edges)):
            d.append("edges")
        else:
            if any(all(not weq(obs.edges[k][0], a[0]) for a in self.edges[k]) for k in obs.edges):
                d.append("weights")
            elif any(all(not (weq(obs.edges[k][0], a[0]) and obs.edges[k][1] == a[1]) for a in self.edges[k]) for k in obs.edges):
                d.append("edge_md")
        return d

    def concretise(self, cap=128):
        """all member states, or None when there are more than cap"""
        import itertools

        keys = list(self.edges)
        choices = []
        n = 1
        for k in keys:
            c = [a for a in self.edges[k]] + ([None] if k in self.optional else [])
            # drop duplicates
            u = []
            for a in c:
                if a not in u:
                    u.append(a)
            choices.append(u)
            n *= len(u)
            if n > cap:
                return None
        out = []
        for combo in itertools.product(*choices):
            T = State(self.weighted, _copy.deepcopy(self.nodes), {})
            for k, a in zip(keys, combo):
                if a is not None:
                    T.edges[k] = [a[0], _copy.deepcopy(a[1])]
            out.append(T)
        return out

    def describe(self):
        return {"weighted": self.weighted, "nodes": {repr(n): m for n, m in self.nodes.items()},
                "edges(admissible alternatives)": {repr(sorted_key(k)): v for k, v in self.edges.items()},
                "optional": [repr(sorted_key(k)) for k in self.optional]}


def sorted_key(k):
    """printable canonical form of a key"""
    if isinstance(k, frozenset):
        return tuple(sorted(k, key=repr))
    if isinstance(k, tuple):
        return tuple(sorted_key(x) for x in k)
    return k


# --------------------------------------------------------------------------------------
# key algebra per container kind
# --------------------------------------------------------------------------------------
class KeyAlg:
    kind = "H"

    def nodes(self, k):
        return k

    def size(self, k):
        return len(self.nodes(k))

    def shrink(self, k, n):
        """key after removing node n from it; None when nothing sensible is left"""
        r = k - {n}
        return r


class HKeys(KeyAlg):
    kind = "H"


class DKeys(KeyAlg):
    kind = "D"

    def nodes(self, k):
        return k[0] | k[1]

    def shrink(self, k, n):
        return (k[0] - {n}, k[1] - {n})


class TKeys(KeyAlg):
    kind = "T"

    def nodes(self, k):
        return k[1]

    def shrink(self, k, n):
        return (k[0], k[1] - {n})


class MKeys(KeyAlg):
    kind = "M"

    def nodes(self, k):
        return k[0]

    def shrink(self, k, n):
        return (k[0] - {n}, k[1])


KEYS = {"H": HKeys(), "D": DKeys(), "T": TKeys(), "M": MKeys()}


# --------------------------------------------------------------------------------------
# transition relation
# --------------------------------------------------------------------------------------
class Outcome:
    """states: admissible post-states when the call returns normally
    may_raise: raising is admissible (then post-state must be in `rejected`)
    must_raise: returning normally is a violation
    rejected: admissible post-states when the call raised"""

    def __init__(self, states, may_raise=False, must_raise=False, rejected=None, unknown=False):
        self.states = states
        self.unknown = unknown  # the model's branching exceeded its cap: event not judged
        self.may_raise = may_raise or must_raise
        self.must_raise = must_raise
        self.rejected = rejected


def _md(x):
    return {} if x is None else x


class Model:
    """Transition relation, generic over the key algebra."""

    def __init__(self, kind):
        self.kind = kind
        self.K = KEYS[kind]

    # ---- single-element steps: each returns a list of admissible states ---------------
    def _add_node(self, S, n, md):
        if n not in S.nodes:
            T = S.copy()
            T.nodes[n] = _copy.deepcopy(_md(md))
            return [T]
        outs = [S.copy()]
        if S.nodes[n] == {} and _md(md) != {}:
            T = S.copy()
            T.nodes[n] = _copy.deepcopy(_md(md))
            outs.append(T)  # "replaced when the old one was {}" (leniency)
        return outs

    def _add_edge(self, S, key, w, md):
        """valid insertion of key with weight w (None -> 1) and metadata md"""
        base = S.copy()
        for n in self.K.nodes(key):
            if n not in base.nodes:
                base.nodes[n] = {}
        if key not in base.edges:
            base.edges[key] = [(1 if w is None else w) if S.weighted else 1, _copy.deepcopy(_md(md))]
            return [base]
        if S.weighted:
            base.edges[key][0] = base.edges[key][0] + (1 if w is None else w)
        outs = [base]
        alt = base.copy()
        alt.edges[key][1] = _copy.deepcopy(_md(md))  # metadata replaced by the new one / {}
        if alt.edges[key][1] != base.edges[key][1]:
            outs.append(alt)
        return outs

    def _remove_edge(self, S, key):
        T = S.copy()
        del T.edges[key]
        return [T]

    def _remove_node(self, S, n, keep):
        K = self.K
        inc = [k for k in S.edges if n in K.nodes(k)]
        if not keep:
            T = S.copy()
            for k in inc:
                del T.edges[k]
            del T.nodes[n]
            return [T]
        # keep_edges=True: every incident hyperedge loses n.  Collisions with an existing
        # key: weights add when weighted, metadata of either.  A hyperedge that becomes
        # empty (or, directed, loses a whole side) may be dropped or (H only) kept as ().
        # Distinct incident keys shrink to distinct keys, so the choices are independent
        # per resulting key: a Flex state lists the admissible (w, md) per key.
        F = Flex(S.weighted, {m: _copy.deepcopy(md) for m, md in S.nodes.items() if m != n})
        for k, v in S.edges.items():
            if k not in inc:
                F.edges[k] = [[v[0], _copy.deepcopy(v[1])]]
        contrib = {}
        for k in inc:
            w, md = S.edges[k]
            r = K.shrink(k, n)
            if self._degenerate(r) and self.kind != "H":
                continue  # dropped
            contrib.setdefault(r, []).append((w, md))
        for r, lst in contrib.items():  # (directed: several incident keys may shrink to one)
            deg = self._degenerate(r)
            mds = [_copy.deepcopy(md) for _, md in lst]
            if r in F.edges:  # collision with a key that does not contain n
                w0, md0 = F.edges[r][0]
                ww = (w0 + sum(w for w, _ in lst)) if S.weighted else w0
                alts = [[ww, md0]] + [[ww, m] for m in mds]
                if deg:
                    alts.append([w0, md0])  # the empty hyperedge was dropped instead
                F.edges[r] = alts
            else:
                ww = sum(w for w, _ in lst) if S.weighted else 1
                F.edges[r] = [[ww, m] for m in mds]
                if deg:
                    F.optional.add(r)
        return [F]

    def _degenerate(self, r):
        if self.kind == "H":
            return len(r) == 0
        if self.kind == "D":
            return len(r[0]) == 0 or len(r[1]) == 0
        if self.kind == "T":
            return len(r[1]) == 0
        return len(r[0]) == 0

    # ---- public relation --------------------------------------------------------------
    def outcome(self, S, op):
        """op = (name, args-dict) in abstract form (keys, not library tuples)."""
        name, a = op
        K = self.K
        same = [S.copy()]
        if name == "add_node":
            return Outcome(self._add_node(S, a["n"], a.get("md")))
        if name == "add_nodes":
            if a.get("mds") is not None and any(n not in a["mds"] for n in a["ns"]):
                return Outcome(same, must_raise=True, may_raise=True, rejected=same)  # uncovered node: refused as a whole
            states = [S.copy()]
            for n in a["ns"]:
                md = None if a.get("mds") is None else a["mds"].get(n)
                states = [T2 for T in states for T2 in self._add_node(T, n, md)][:32]
            return Outcome(states)
        if name == "add_edge":
            if not a.get("valid", True):  # invalid time / weight on unweighted
                return Outcome(same, must_raise=a.get("must_raise", False), may_raise=True, rejected=same)
            return Outcome(self._add_edge(S, a["key"], a.get("w"), a.get("md")))
        if name == "add_edges":
            items = a["items"]  # list of (key, w, md)
            if not a.get("valid", True):
                return Outcome(same, may_raise=True, must_raise=a.get("must_raise", False),
                               rejected=self._prefixes(S, items) if a.get("prefix_ok") else same)
            starts = [S.copy()]
            if a.get("use_w") and not S.weighted:
                # weights handed to an unweighted container: ignored (stays unweighted) or it becomes weighted from this
                # batch on (existing hyperedges keep their weight 1); the statements pin neither, both are admissible
                Tw = S.copy()
                Tw.weighted = True
                starts.append(Tw)
            states = []
            for T0 in starts:
                sts = [T0]
                for key, w, md in items:
                    sts = [T2 for T in sts for T2 in self._add_edge(T, key, w, md)][:32]
                states.extend(sts)
            # a weighted batch that literally repeats an element may be refused (documented) --
            # but not when the repeats differ in time / layer (C03/C04 statements)
            return Outcome(states, may_raise=a.get("may_refuse", False), rejected=same)
        if name == "remove_edge":
            if a["key"] not in S.edges:
                return Outcome(same, may_raise=True, rejected=same)
            return Outcome(self._remove_edge(S, a["key"]))
        if name == "remove_edges":
            states, T, ok = [S.copy()], S.copy(), True
            pref = [S.copy()]
            for key in a["keys"]:
                if key not in T.edges:
                    ok = False
                    break
                T = self._remove_edge(T, key)[0]
                pref.append(T)
            if not ok:
                return Outcome(pref, may_raise=True, rejected=pref)
            return Outcome([T])
        if name == "remove_node":
            if a["n"] not in S.nodes:
                return Outcome(same, may_raise=True, rejected=same)
            return Outcome(self._remove_node(S, a["n"], a.get("keep", False)))
        if name == "remove_nodes":
            states, ok = [S.copy()], True
            pref = [S.copy()]
            ns = list(a["ns"])
            for i, n in enumerate(ns):
                nxt = []
                for T in states:
                    if n not in T.nodes:
                        ok = False
                        break
                    nxt.extend(self._remove_node(T, n, a.get("keep", False)))
                if not ok:
                    break
                pref.extend(nxt)
                if i < len(ns) - 1:  # need concrete states to continue from
                    conc = []
                    for T in nxt:
                        c = [T] if isinstance(T, State) else T.concretise()
                        if c is None:
                            return Outcome([], unknown=True)
                        conc.extend(c)
                    if len(conc) > 256:
                        return Outcome([], unknown=True)
                    nxt = conc
                states = nxt
            if not ok:
                return Outcome(pref, may_raise=True, rejected=pref)
            return Outcome(states)
        if name == "set_weight":
            valid = a["key"] in S.edges and (S.weighted or a["w"] == 1)
            if not valid:
                return Outcome(same, may_raise=True, rejected=same)
            T = S.copy()
            T.edges[a["key"]][0] = a["w"]
            return Outcome([T])
        if name == "set_node_metadata":
            if a["n"] not in S.nodes:
                return Outcome(same, may_raise=True, rejected=same)
            T = S.copy()
            T.nodes[a["n"]] = _copy.deepcopy(a["md"])
            return Outcome([T])
        if name == "set_edge_metadata":
            if a["key"] not in S.edges:
                return Outcome(same, may_raise=True, rejected=same)
            T = S.copy()
            T.edges[a["key"]][1] = _copy.deepcopy(a["md"])
            return Outcome([T])
        if name == "set_attr_node":
            if a["n"] not in S.nodes:
                return Outcome(same, may_raise=True, rejected=same)
            T = S.copy()
            T.nodes[a["n"]][a["f"]] = _copy.deepcopy(a["v"])
            return Outcome([T])
        if name == "set_attr_edge":
            if a["key"] not in S.edges:
                return Outcome(same, may_raise=True, rejected=same)
            T = S.copy()
            T.edges[a["key"]][1][a["f"]] = _copy.deepcopy(a["v"])
            return Outcome([T])
        if name == "rm_attr_node":
            if a["n"] not in S.nodes or a["f"] not in S.nodes[a["n"]]:
                return Outcome(same, may_raise=True, rejected=same)
            T = S.copy()
            del T.nodes[a["n"]][a["f"]]
            return Outcome([T])
        if name == "rm_attr_edge":
            if a["key"] not in S.edges or a["f"] not in S.edges[a["key"]][1]:
                return Outcome(same, may_raise=True, rejected=same)
            T = S.copy()
            del T.edges[a["key"]][1][a["f"]]
            return Outcome([T])
        if name == "clear":
            return Outcome([State(S.weighted)])
        raise ValueError("unknown op " + name)

    def _prefixes(self, S, items):
        pref = [S.copy()]
        states = [S.copy()]
        for key, w, md in items:
            if key is None:
                break
            states = [T2 for T in states for T2 in self._add_edge(T, key, w, md)][:16]
            pref.extend(states)
        return pref
