"""Recording context shared by all oracles.

A *case* is one generated workload item (a history, an input object, a parameter draw).
Oracles talk to a Ctx: they tick monitor-evaluation counters, record events and the
exceptions the library raised, register distinct non-trivial cases, keep a few samples
and report violations.  Nothing here decides anything: the Ctx is the event log the
driver merges and turns into a verdict + evidence.
"""
import hashlib
import json
import random
import traceback
from collections import Counter


class CaseAbort(Exception):
    """Raised by Ctx.violation(..., abort=True) to stop the current case (e.g. a history
    whose model state has diverged cannot be judged further)."""


def digest(obj):
    return hashlib.sha1(repr(obj).encode()).hexdigest()[:16]


def case_seed(seed, prop, idx):
    h = hashlib.sha256(f"{seed}|{prop}|{idx}".encode()).digest()
    return int.from_bytes(h[:8], "big")


def jsonable(o, depth=0):
    """Best-effort conversion of witnesses/samples to JSON (never raises)."""
    if depth > 12:
        return repr(o)
    if o is None or isinstance(o, (bool, int, float, str)):
        if isinstance(o, float) and (o != o or o in (float("inf"), float("-inf"))):
            return repr(o)
        return o
    if isinstance(o, dict):
        return {
            (k if isinstance(k, str) else repr(k)): jsonable(v, depth + 1)
            for k, v in o.items()
        }
    if isinstance(o, (list, tuple)):
        return [jsonable(v, depth + 1) for v in o]
    if isinstance(o, (set, frozenset)):
        try:
            return [jsonable(v, depth + 1) for v in sorted(o, key=repr)]
        except Exception:
            return repr(o)
    try:
        import numpy as np

        if isinstance(o, np.generic):
            return jsonable(o.item(), depth + 1)
        if isinstance(o, np.ndarray):
            if o.size <= 400:
                return jsonable(o.tolist(), depth + 1)
            return {"ndarray_shape": list(o.shape), "head": jsonable(o.ravel()[:50].tolist())}
    except Exception:
        pass
    return repr(o)


class Ctx:
    MAX_VIOL_PER_MECH = 8
    MAX_SAMPLES = 4

    def __init__(self, prop, seed, tier):
        self.prop = prop
        self.seed = seed
        self.tier = tier
        self.case_idx = None
        self.monitors = Counter()  # monitor name -> evaluations
        self.events = Counter()  # event kind -> count
        self.exceptions = Counter()  # "op:ExcType" -> count
        self.distinct = set()  # digests of distinct non-trivial cases
        self.extra_sets = {}  # name -> set of digests (e.g. distinct states)
        self.samples = []
        self.violations = []  # dicts
        self.viol_counts = Counter()  # mechanism -> count (all, even if not stored)
        self.inconclusive = Counter()  # reason -> count
        self.cases_run = 0
        self.notes = Counter()

    # -- bookkeeping -----------------------------------------------------------------
    def tick(self, name, n=1):
        self.monitors[name] += n

    def event(self, kind, n=1):
        self.events[kind] += n
        if kind.startswith("re-evaluated"):
            # a second evaluation of the same case: it must not be counted as another distinct case
            self._mute_distinct = True

    def exc(self, op, e):
        self.exceptions[f"{op}:{type(e).__name__}"] += 1

    def distinct_add(self, key):
        if not getattr(self, "_mute_distinct", False):
            self.distinct.add(digest(key))

    def set_add(self, name, key):
        self.extra_sets.setdefault(name, set()).add(digest(key))

    def sample(self, obj):
        if len(self.samples) < self.MAX_SAMPLES:
            self.samples.append(jsonable(obj))

    def note(self, k, n=1):
        self.notes[k] += n

    def inconclusive_case(self, reason):
        self.inconclusive[reason] += 1

    # -- verdicts --------------------------------------------------------------------
    def violation(self, mechanism, detail=None, abort=False):
        """mechanism: stable classifier key (what kind of thing failed), never data."""
        self.viol_counts[mechanism] += 1
        if self.viol_counts[mechanism] <= self.MAX_VIOL_PER_MECH:
            self.violations.append(
                {
                    "mechanism": mechanism,
                    "case": self.case_idx,
                    "detail": jsonable(detail),
                }
            )
        if abort:
            raise CaseAbort(mechanism)

    def check(self, monitor, cond, mechanism, detail=None, abort=False):
        """Evaluate one monitor: counts the evaluation, reports when cond is false."""
        self.monitors[monitor] += 1
        if not cond:
            d = detail() if callable(detail) else detail
            self.violation(mechanism, d, abort=abort)
            return False
        return True

    # -- (de)serialisation for shard merge ----------------------------------------------
    def dump(self):
        return {
            "monitors": dict(self.monitors),
            "events": dict(self.events),
            "exceptions": dict(self.exceptions),
            "distinct": sorted(self.distinct),
            "extra_sets": {k: sorted(v) for k, v in self.extra_sets.items()},
            "samples": self.samples,
            "violations": self.violations,
            "viol_counts": dict(self.viol_counts),
            "inconclusive": dict(self.inconclusive),
            "cases_run": self.cases_run,
            "notes": dict(self.notes),
        }


def merge(dumps):
    out = {
        "monitors": Counter(),
        "events": Counter(),
        "exceptions": Counter(),
        "distinct": set(),
        "extra_sets": {},
        "samples": [],
        "violations": [],
        "viol_counts": Counter(),
        "inconclusive": Counter(),
        "cases_run": 0,
        "notes": Counter(),
    }
    for d in dumps:
        for k in ("monitors", "events", "exceptions", "viol_counts", "inconclusive", "notes"):
            out[k].update(d.get(k, {}))
        out["distinct"].update(d.get("distinct", []))
        for k, v in d.get("extra_sets", {}).items():
            out["extra_sets"].setdefault(k, set()).update(v)
        if len(out["samples"]) < 5:
            out["samples"].extend(d.get("samples", [])[: 5 - len(out["samples"])])
        out["violations"].extend(d.get("violations", []))
        out["cases_run"] += d.get("cases_run", 0)
    return out


def run_cases(oracle, ctx, indices, stop_after_violations=200, not_counted=()):
    """Run oracle.run_case for each index with its own deterministic RNG."""
    for idx in indices:
        ctx.case_idx = idx
        ctx._mute_distinct = False
        rng = random.Random(case_seed(ctx.seed, ctx.prop, idx))
        try:
            oracle.run_case(ctx, rng, idx)
        except CaseAbort:
            pass
        except Exception as e:  # a crash of the harness/oracle itself, or an unexpected library raise
            ctx.violation(
                "harness-or-library-crash:" + type(e).__name__,
                {"traceback": traceback.format_exc()[-3000:]},
            )
        ctx.cases_run += 1
        if sum(v for k, v in ctx.viol_counts.items() if k not in not_counted) > stop_after_violations:
            ctx.note("stopped_early_too_many_violations")
            break
