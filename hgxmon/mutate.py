"""In-place edits used to re-run an oracle on the SAME object after it has been queried once: a cache or
memo that is keyed on counts, ids or object identity and not invalidated on some mutating path only shows on
the second evaluation."""


def same_count_edit(rng, h, uniform_size=None, keep_connected=False, directed=False, tries=30):
    """Remove one hyperedge and insert a different one over existing nodes, so that the numbers of nodes and
    hyperedges stay the same but the structure changes.  Returns a description or None when not possible."""
    edges = list(h.get_edges())
    nodes = list(h.get_nodes())
    if len(edges) < 1 or len(nodes) < 2:
        return None
    for _ in range(tries):
        old = rng.choice(edges)
        if directed:
            k = rng.randint(2, min(5, len(nodes)))
            ns = rng.sample(nodes, k)
            cut = rng.randint(1, k - 1)
            new = (tuple(sorted(ns[:cut])), tuple(sorted(ns[cut:])))
        else:
            k = uniform_size or rng.randint(1, min(5, len(nodes)))
            if k > len(nodes):
                return None
            new = tuple(sorted(rng.sample(nodes, k)))
        if h.check_edge(new) or new == old:
            continue
        w = h.get_weight(old)
        h.remove_edge(old)
        h.add_edge(new, weight=w if h.is_weighted() else None)
        if keep_connected and not (connected_ref(h) and len(h.get_nodes()) == len(nodes)):
            h.remove_edge(new)
            h.add_edge(old, weight=w if h.is_weighted() else None)
            continue
        return {"removed": old, "added": new}
    return None


def connected_ref(h):
    """connectivity by union-find over the listed hyperedges (never the library's own is_connected)"""
    from .refs import components

    return len(components(list(h.get_nodes()), [tuple(e) for e in h.get_edges()])) == 1
