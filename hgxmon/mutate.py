"""In-place edits used to re-run an oracle on the SAME object after it has been queried once: a cache or
memo that is keyed on counts, ids or object identity and not invalidated on some mutating path only shows on
the second evaluation."""


def same_count_edit(rng, h, uniform_size=None, keep_connected=False, directed=False, tries=30):
    """Remove one hyperedge and insert a different one over existing nodes, so that the numbers of nodes and
    hyperedges stay the same but the structure changes.  Returns a description or None when not possible."""
    edges = list(h.get_edges())
    nodes = list(h.get_nodes())
    if len(edges) < 1 or len(nodes) < 2:
        return None
    for _ in range(tries):
        old = rng.choice(edges)
        if directed:
            k = rng.randint(2, min(5, len(nodes)))
            ns = rng.sample(nodes, k)
            cut = rng.randint(1, k - 1)
            new = (tuple(sorted(ns[:cut])), tuple(sorted(ns[cut:])))
        else:
            k = uniform_size or rng.randint(1, min(5, len(nodes)))
            if k > len(nodes):
                return None
            new = tuple(sorted(rng.sample(nodes, k)))
        if h.check_edge(new) or new == old:
            continue
        w = h.get_weight(old)
        h.remove_edge(old)
        h.add_edge(new, weight=w if h.is_weighted() else None)
        if keep_connected and not (connected_ref(h) and len(h.get_nodes()) == len(nodes)):
            h.remove_edge(new)
            h.add_edge(old, weight=w if h.is_weighted() else None)
            continue
        return {"removed": old, "added": new}
    return None


def connected_ref(h):
    """connectivity by union-find over the listed hyperedges (never the library's own is_connected)"""
    from .refs import components

    return len(components(list(h.get_nodes()), [tuple(e) for e in h.get_edges()])) == 1


def refused_calls(rng, h, directed=False, n=None):
    """Client calls the library is documented to REFUSE (their exceptions are caught the way a caller would),
    made on a live object between constructing it and measuring it.  C01-C04 establish that a refused call
    leaves every observable unchanged, so on a correct tree this is a no-op; a validation that fires after part
    of the state has been written leaves an object whose listings disagree, and the measures are then judged on
    exactly that object.  Returns the number of calls that were refused."""
    nodes = list(h.get_nodes())
    refused = 0
    if len(nodes) < 2:
        return 0

    def new_edge():
        for _ in range(20):
            k = rng.randint(2, min(4, len(nodes)))
            ns = rng.sample(nodes, k)
            if directed:
                cut = rng.randint(1, k - 1)
                e = (tuple(sorted(ns[:cut])), tuple(sorted(ns[cut:])))
            else:
                e = tuple(sorted(ns))
            if not h.check_edge(e):
                return e
        return None

    for _ in range(n or rng.randint(1, 3)):
        r = rng.randrange(5)
        try:
            e = new_edge()
            if r == 0 and e is not None and not h.is_weighted():
                h.add_edge(e, weight=rng.choice([2, 0.5, 3]))
            elif r == 1 and e is not None and not h.is_weighted():
                h.add_edge(e, weight=rng.choice([7, 1.5]), metadata={"refused": True})
            elif r == 2 and e is not None:
                h.remove_edge(e)
            elif r == 3 and e is not None:
                h.set_weight(e, 4)
            elif r == 4 and e is not None and h.is_weighted():
                h.add_edges([e], weights=[1, 2])  # length mismatch
            else:
                continue
        except Exception:
            refused += 1
    return refused


def second_order(rng, h, directed=False):
    """Returns (label, object) for a state that is observably the SAME hypergraph as h but reached through another
    sequence of legal calls: a copy of a copy, or the same object after clear() and re-insertion of its content in
    another order (node metadata, weights and hyperedge metadata restored through the public setters).  Whatever a
    measure answered for h it must answer for this one; leftovers of the earlier life of the object (ids, memos,
    registries that clear() forgot) show as a difference."""
    r = rng.random()
    if r < 0.25:
        return "copy-of-copy", h.copy().copy()
    if r < 0.5:
        # a copy that is then EXTENDED (new hyperedges get fresh ids in the copy) - the content differs from h's, the oracle
        # recomputes its reference from what it observes on the returned object
        g = h.copy()
        ns = list(g.get_nodes())
        for _ in range(3):
            if len(ns) < 2:
                break
            k = rng.randint(2, min(3, len(ns)))
            pick = rng.sample(ns, k)
            e = (tuple(sorted(pick[:1])), tuple(sorted(pick[1:]))) if directed else tuple(sorted(pick))
            if not g.check_edge(e):
                g.add_edge(e, weight=2 if g.is_weighted() else None)
                break
        return "copy-then-extended", g
    if r < 0.65:
        # metadata handed to a node that already belongs to hyperedges (its incidences must be left alone)
        ns = [n for n in h.get_nodes() if h.get_incident_edges(n)]
        if ns:
            v = rng.choice(sorted(ns, key=repr))
            h.add_node(v, {"late": 1})
            if hasattr(h, "add_nodes") and not directed and len(ns) > 1:
                w_ = rng.choice(sorted(ns, key=repr))
                try:
                    h.add_nodes([w_], metadata={w_: {"late": 2}})
                except Exception:
                    pass
        return "metadata-handed-to-existing-nodes", h
    nodes = {n: dict(h.get_node_metadata(n)) for n in h.get_nodes()}
    edges = [(e, h.get_weight(e), dict(h.get_edge_metadata(e))) for e in h.get_edges()]
    h.clear()
    order = list(edges)
    rng.shuffle(order)
    ns = list(nodes)
    rng.shuffle(ns)
    half = ns[: len(ns) // 2]
    if half:
        h.add_nodes(half)
    for e, w, md in order:
        if directed:
            e2 = (tuple(reversed(e[0])), tuple(reversed(e[1])))
        else:
            e2 = tuple(reversed(e))
        h.add_edge(e2, weight=w if h.is_weighted() else None, metadata=md)
    for n in ns:
        h.add_node(n)
        h.set_node_metadata(n, nodes[n])
    return "cleared-and-rebuilt", h


def degree_preserving_swap(rng, h, directed=False, tries=40, keep_connected=False):
    """Double hyperedge swap, in place: two hyperedges exchange one node each (a in e1 only, b in e2 only), so that the number
    of nodes, the number of hyperedges, EVERY node's degree (also per size) and the size of every hyperedge stay what they
    were, while the hyperedges themselves change.  Four edits (two removals, two insertions) with no query in between: a
    memo validated by counts, degree sequences or size distributions survives it.  Returns a description or None."""
    edges = list(h.get_edges())
    if len(edges) < 2:
        return None
    n_nodes = len(h.get_nodes())
    for _ in range(tries):
        e1, e2 = rng.sample(edges, 2)
        if directed:
            side = rng.randrange(2)
            s1, s2 = set(e1[side]), set(e2[side])
            all1, all2 = set(e1[0]) | set(e1[1]), set(e2[0]) | set(e2[1])
            A, B = sorted(s1 - all2, key=repr), sorted(s2 - all1, key=repr)
            if not A or not B:
                continue
            a, b = rng.choice(A), rng.choice(B)
            n1 = list(map(set, e1))
            n2 = list(map(set, e2))
            n1[side] = (n1[side] - {a}) | {b}
            n2[side] = (n2[side] - {b}) | {a}
            n1 = (tuple(sorted(n1[0])), tuple(sorted(n1[1])))
            n2 = (tuple(sorted(n2[0])), tuple(sorted(n2[1])))
        else:
            A, B = sorted(set(e1) - set(e2), key=repr), sorted(set(e2) - set(e1), key=repr)
            if not A or not B:
                continue
            a, b = rng.choice(A), rng.choice(B)
            n1 = tuple(sorted((set(e1) - {a}) | {b}))
            n2 = tuple(sorted((set(e2) - {b}) | {a}))
        if n1 == n2 or h.check_edge(n1) or h.check_edge(n2):
            continue
        w1, w2 = h.get_weight(e1), h.get_weight(e2)
        m1, m2 = h.get_edge_metadata(e1), h.get_edge_metadata(e2)
        wd = h.is_weighted()
        h.remove_edge(e1)
        h.remove_edge(e2)
        h.add_edge(n1, weight=w1 if wd else None, metadata=dict(m1))
        h.add_edge(n2, weight=w2 if wd else None, metadata=dict(m2))
        if keep_connected and not (connected_ref(h) and len(h.get_nodes()) == n_nodes):
            h.remove_edge(n1)
            h.remove_edge(n2)
            h.add_edge(e1, weight=w1 if wd else None, metadata=dict(m1))
            h.add_edge(e2, weight=w2 if wd else None, metadata=dict(m2))
            continue
        return {"swapped": (e1, e2), "into": (n1, n2)}
    return None


def rebuilt(h, directed=False):
    """A NEW object with the content of h (same node order, same insertion order of the hyperedges), built through the public
    constructor and insertion calls - not a copy: it shares no memo, id counter or registry entry with h."""
    g = type(h)(weighted=h.is_weighted())
    for n in h.get_nodes():
        g.add_node(n, dict(h.get_node_metadata(n)))
    for e in h.get_edges():
        g.add_edge(e, weight=h.get_weight(e) if h.is_weighted() else None, metadata=dict(h.get_edge_metadata(e)))
    return g


def twin(rng, h, directed=False, keep_connected=False):
    """A second, independent object over the same node labels whose node degrees, hyperedge count and size distribution equal
    h's while its hyperedges differ (a rebuilt h after a double swap).  Both objects stay alive: whatever is remembered per
    label, per count or per class rather than per object answers for the wrong one.  None when no swap is possible."""
    g = rebuilt(h, directed)
    if degree_preserving_swap(rng, g, directed=directed, keep_connected=keep_connected) is None:
        return None
    return g
