"""obs(h): the complete public observation of a container, as an abstract State.

Only the public query API is used.  Inconsistencies between two public views of the same
thing (e.g. get_nodes() vs get_nodes(metadata=True)) are reported through `problems`.
"""
import copy

from .models import State


def kind_of(h):
    return {"Hypergraph": "H", "DirectedHypergraph": "D", "TemporalHypergraph": "T",
            "MultiplexHypergraph": "M"}[type(h).__name__]


def key_from_lib(kind, e):
    """library listing item -> abstract key"""
    if kind == "H":
        return frozenset(e)
    if kind == "D":
        return (frozenset(e[0]), frozenset(e[1]))
    if kind == "T":
        return (e[0], frozenset(e[1]))
    return (frozenset(e[0]), e[1])


def lib_args(kind, key, rng=None):
    """positional arguments identifying hyperedge `key` in library calls, with the node
    order shuffled when an rng is given ("regardless of the order its nodes are listed in")"""

    def tup(fs):
        l = sorted(fs) if _sortable(fs) else list(fs)
        if rng is not None:
            rng.shuffle(l)
            if rng.random() < 0.5:
                l = [fresh(x) for x in l]  # equal but not identical objects: "is" comparisons must not matter
        return tuple(l)

    if kind == "H":
        return (tup(key),)
    if kind == "D":
        return ((tup(key[0]), tup(key[1])),)
    if kind == "T":
        return (tup(key[1]), key[0])
    return (tup(key[0]), key[1])


def fresh(x):
    """an object equal to x but (where CPython allows) not identical to it"""
    try:
        import numpy as np

        if isinstance(x, np.integer):
            return type(x)(int(x))
        if isinstance(x, np.floating):
            return type(x)(float(x))
    except Exception:
        pass
    if isinstance(x, bool):
        return x
    if isinstance(x, int):
        return int(str(x))
    if isinstance(x, str):
        return "".join(list(x))
    if isinstance(x, float):
        return float(repr(x))
    return x


def _sortable(fs):
    try:
        sorted(fs)
        return True
    except TypeError:
        return False


def observe(h, problems=None):
    """Returns State built from public queries.  `problems` (list) receives strings naming
    cross-view inconsistencies; query exceptions propagate to the caller."""
    kind = kind_of(h)
    P = problems if problems is not None else []
    weighted = h.is_weighted()
    nodes_l = list(h.get_nodes())
    if len(set(nodes_l)) != len(nodes_l):
        P.append("get_nodes:duplicate-listing")
    nodes_md = h.get_nodes(metadata=True)
    nodes = {}
    if isinstance(nodes_md, dict):
        if set(nodes_md.keys()) != set(nodes_l):
            P.append("get_nodes(metadata=True):keys-differ-from-get_nodes")
        for n in nodes_l:
            nodes[n] = copy.deepcopy(nodes_md.get(n))
    else:  # list of (node, md)
        d = dict(nodes_md)
        if set(d) != set(nodes_l):
            P.append("get_nodes(metadata=True):keys-differ-from-get_nodes")
        for n in nodes_l:
            nodes[n] = copy.deepcopy(d.get(n))
    if hasattr(h, "get_node_metadata"):
        for n in nodes_l:
            if h.get_node_metadata(n) != nodes[n]:
                P.append("get_node_metadata:differs-from-get_nodes(metadata=True)")
                break
    edges_l = list(h.get_edges())
    keys = [key_from_lib(kind, e) for e in edges_l]
    if len(set(keys)) != len(keys):
        P.append("get_edges:duplicate-listing")
    edges = {}
    for e, k in zip(edges_l, keys):
        a = lib_args(kind, k)
        w = h.get_weight(*a)
        md = h.get_edge_metadata(*a)
        edges[k] = [w, copy.deepcopy(md)]
    emd = h.get_edges(metadata=True)
    if not isinstance(emd, dict) or {key_from_lib(kind, e) for e in emd} != set(keys):
        P.append("get_edges(metadata=True):keys-differ-from-get_edges")
    else:
        for e, md in emd.items():
            if edges[key_from_lib(kind, e)][1] != md:
                P.append("get_edges(metadata=True):metadata-differs-from-get_edge_metadata")
                break
    if hasattr(h, "get_weights"):
        wl = h.get_weights()
        if list(wl) != [edges[k][0] for k in keys]:
            P.append("get_weights:not-aligned-with-get_edges")
        wd = h.get_weights(asdict=True)
        if not isinstance(wd, dict) or {key_from_lib(kind, e): w for e, w in wd.items()} != {k: v[0] for k, v in edges.items()}:
            P.append("get_weights(asdict=True):differs-from-get_weight")
    hgmd = copy.deepcopy(h.get_hypergraph_metadata())
    return State(weighted, nodes, edges, hgmd)


def npize(rng, v, p=0.15):
    """The same argument value as a NumPy scalar (sizes, orders, counts, thresholds and flags routinely come out of
    arrays): np.int64 / np.float64 / np.bool_ with probability p, the plain Python value otherwise."""
    if v is None or rng.random() >= p:
        return v
    import numpy as np

    if isinstance(v, bool):
        return np.bool_(v)
    if isinstance(v, int):
        return np.int64(v) if abs(v) < 2 ** 62 else v
    if isinstance(v, float):
        return np.float64(v)
    return v
