"""shared body of the C01-C04 oracles: one case = one monitored history"""
from .. import history
from ..monitor import CaseAbort


SUITE_DIRS = {"H": "hypergraphs", "D": "directed_hypergraphs", "T": "temporal_hypergraphs", "M": "multiplex_hypergraphs"}
CLASS = {"H": "Hypergraph", "D": "DirectedHypergraph", "T": "TemporalHypergraph", "M": "MultiplexHypergraph"}


def suite_stage(ctx, kind):
    """Run the repository's own tests with the container monitors on (pytest plugin) and merge what they observed.
    quick: the class's own test directory; thorough: the whole suite."""
    import json
    import os
    import subprocess
    import sys
    import tempfile
    from ..driver import repo_path, VERIF

    repo = repo_path()
    targets = [os.path.join("tests", "core", SUITE_DIRS[kind])] if ctx.tier == "quick" else ["tests"]
    fd, out = tempfile.mkstemp(prefix="hgxmon_suite_", suffix=".json")
    os.close(fd)
    env = dict(os.environ, HGX_VERIF="1", HGXMON_SUITE_OUT=out, PYTHONPATH=repo + os.pathsep + VERIF, PYTHONDONTWRITEBYTECODE="1")
    try:
        pr = subprocess.run([sys.executable, "-m", "pytest", "-q", "-p", "no:cacheprovider", "-p", "hgxmon.pytest_plugin", "--timeout=900"] + targets,
                            cwd=repo, env=env, capture_output=True, text=True, timeout=1500)
        with open(out) as fh:
            d = json.load(fh)
    except Exception as e:
        ctx.inconclusive_case("suite-under-monitor-did-not-run:" + type(e).__name__)
        return
    finally:
        if os.path.exists(out):
            os.remove(out)
    ctx.event("suite-under-monitor:mutating-calls-observed", d.get("calls", 0))
    ctx.event("suite-under-monitor:objects-too-large-skipped", d.get("skipped_large", 0))
    ctx.tick("suite-under-monitor:battery", sum(v for k, v in d.get("monitors", {}).items() if CLASS[kind] in k))
    for k, v in d.get("notes", {}).items():
        ctx.note("suite:" + k[:120], v)
    if d.get("exitstatus", 1) != 0:
        ctx.note("suite-under-monitor:pytest-exit-%s" % d.get("exitstatus"))
    for v in d.get("violations", []):
        if v["mechanism"].startswith("suite:" + CLASS[kind] + ":"):
            ctx.violation(v["mechanism"], v["detail"])


EXH_LEN = 4


def n_exhaustive(kind):
    return 2 * len(history.alphabet(kind, True)) ** EXH_LEN


def make(kind, prop, quick, thorough, long_every=30):
    tag = kind

    def run_case(ctx, rng, idx):
        if ctx.tier == "thorough" and idx >= thorough:
            # bounded-exhaustive part: EVERY history of length EXH_LEN over the small alphabet, weighted and unweighted
            j = idx - thorough
            n_seq = len(history.alphabet(kind, True)) ** EXH_LEN
            weighted, number = j >= n_seq, j % n_seq
            ctx.event("exhaustive-history")
            history.exhaustive_history(ctx, rng, kind, weighted, number, EXH_LEN, tag)
            ctx.distinct_add(("exh", weighted, number))
            return
        if idx == 0:
            suite_stage(ctx, kind)
        long = ctx.tier == "thorough" and idx % long_every == 0
        # scale and hub histories at fixed case numbers (what a run reaches must not hang on one draw)
        big = "scale" if idx == 1 or (ctx.tier == "thorough" and idx % 400 == 7) else "hub" if idx in (2, 5) or (ctx.tier == "thorough" and idx % 400 == 9) else False
        # tuple labels (grid coordinates): "any mutually comparable hashable labels" for the plain Hypergraph; the other three
        # containers read a pair of tuples as (source, target) by design, so this universe is for H only
        uni = "tuple" if kind == "H" and not big and idx % 25 == 4 else None
        cfg = history.Cfg(rng, kind, long=long, big=big, uni=uni)
        if kind == "T" and (idx == 3 or (ctx.tier == "thorough" and idx % 400 == 11)):
            # time stamps beyond 2**53 (where a float no longer tells neighbouring integers apart)
            cfg.time_pool = [0, 1, 2**52, 2**53, 2**53 + 1, 2**53 + 2, 2**60 + 1, 2**63 - 1, 2**63, 2**64 + 5]
            ctx.event("huge-time-stamps")
        if big:
            ctx.event(big + "-history")
        cfg.use_constructor = rng.random() < 0.3
        cfg.full_battery = (not long) and rng.random() < (0.05 if ctx.tier == "quick" else 0.2)  # every filter, window and width
        raw = []
        nviol = len(ctx.violations)
        script = None
        if big == "hub" and not (ctx.tier == "thorough" and idx % 800 == 9):  # scripted hub history (the random hub history stays in the thorough tier)
            cfg.use_constructor = False
            cfg.large_hub = idx == 5 or idx % 800 == 409  # beyond 256 hyperedges per node and role
            script = history.hub_script(rng, cfg)
            ctx.event("scripted-hub-history")
        try:
            live, trace = history.run_history(ctx, rng, cfg, ops=script, battery_every=(40 if big else 3 if long else 1), tag=tag, raw=raw)
        except CaseAbort:
            # attach a minimised witness to the violation just recorded
            if len(ctx.violations) > nviol:
                v = ctx.violations[-1]
                try:
                    small = history.minimise(cfg, raw, v["mechanism"], tag, budget=400 if len(raw) <= 60 else 30)
                    w = history.witness_of(cfg, small, tag) if small else None
                except Exception as e:  # minimisation is best effort; the original witness stays
                    w = None
                    ctx.note("minimise-failed:" + type(e).__name__)
                if w is not None and isinstance(w["detail"], dict):
                    d = w["detail"]
                    d.pop("before", None)
                    d["minimised"] = True
                    v["detail"] = d
            raise
        if idx % 97 == 0:
            ctx.sample({"cfg": cfg.describe(), "ops": trace[:25]})

    return run_case
