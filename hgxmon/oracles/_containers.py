"""shared body of the C01-C04 oracles: one case = one monitored history"""
from .. import history
from ..monitor import CaseAbort


def make(kind, prop, quick, thorough, long_every=30):
    tag = kind

    def run_case(ctx, rng, idx):
        long = ctx.tier == "thorough" and idx % long_every == 0
        cfg = history.Cfg(rng, kind, long=long)
        cfg.use_constructor = rng.random() < 0.3
        raw = []
        nviol = len(ctx.violations)
        try:
            live, trace = history.run_history(ctx, rng, cfg, battery_every=1 if not long else 3, tag=tag, raw=raw)
        except CaseAbort:
            # attach a minimised witness to the violation just recorded
            if len(ctx.violations) > nviol:
                v = ctx.violations[-1]
                try:
                    small = history.minimise(cfg, raw, v["mechanism"], tag)
                    w = history.witness_of(cfg, small, tag) if small else None
                except Exception as e:  # minimisation is best effort; the original witness stays
                    w = None
                    ctx.note("minimise-failed:" + type(e).__name__)
                if w is not None and isinstance(w["detail"], dict):
                    d = w["detail"]
                    d.pop("before", None)
                    d["minimised"] = True
                    v["detail"] = d
            raise
        if idx % 97 == 0:
            ctx.sample({"cfg": cfg.describe(), "ops": trace[:25]})

    return run_case
