"""C03: history + executable model monitor for the T-container (DESIGN.md section 4)."""
from ._containers import make, n_exhaustive

N_RANDOM = {"quick": 1200, "thorough": 20000}
TIERS = {"quick": N_RANDOM["quick"], "thorough": N_RANDOM["thorough"] + n_exhaustive("T")}
EXHAUSTIVE = {"quick": False, "thorough": True}
WATCHDOG_S = {"quick": 900, "thorough": 7200}
RULE = ("one case = one generated history of 5-40 public mutating calls (every 30th thorough case 150-300) on a fresh "
        "container; after every call the full public observation is checked against the transition relation of the "
        "abstract model and the derived-query battery is evaluated. non-trivial = the history contains at least one "
        "removal and at least one re-insertion of an existing hyperedge; distinct = by final abstract state. The thorough tier "
        "additionally runs EVERY history of length 4 over a fixed alphabet of 16-18 concrete operations on three labels (weighted and "
        "unweighted; exhaustive for that sub-space), with the full battery after every operation")
DECIDING = ["T:transition", "T:battery", "T:rejected-leaves-state"]
ASSUMPTIONS = ["abstract model in hgxmon/models.py (sets and dicts) is the specification",
               "labels are mutually comparable hashables; hyperedges list each node once; no empty hyperedge is inserted directly"]
run_case = make("T", "C03", N_RANDOM["quick"], N_RANDOM["thorough"])
