"""C04: history + executable model monitor for the M-container (DESIGN.md section 4)."""
from ._containers import make

TIERS = {"quick": 1200, "thorough": 20000}
WATCHDOG_S = {"quick": 900, "thorough": 7200}
RULE = ("one case = one generated history of 5-40 public mutating calls (every 30th thorough case 150-300) on a fresh "
        "container; after every call the full public observation is checked against the transition relation of the "
        "abstract model and the derived-query battery is evaluated. non-trivial = the history contains at least one "
        "removal and at least one re-insertion of an existing hyperedge; distinct = by final abstract state")
DECIDING = ["M:transition", "M:battery", "M:rejected-leaves-state"]
ASSUMPTIONS = ["abstract model in hgxmon/models.py (sets and dicts) is the specification",
               "labels are mutually comparable hashables; hyperedges list each node once; no empty hyperedge is inserted directly"]
run_case = make("M", "C04", TIERS["quick"], TIERS["thorough"])
