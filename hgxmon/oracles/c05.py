"""C05: sub-hypergraph extraction and copy — postcondition oracles on the real extractors.

Sources are end states of monitored-free C01/C02 histories (edge ids have gaps, metadata on
nodes and hyperedges).  For each selection the expected result is computed from the public
observation of the source; the source must be observably unchanged afterwards."""
import copy
import itertools

from .. import history
from ..models import State, KEYS, sorted_key
from ..battery import call
from ..observe import observe, lib_args
from ..monitor import CaseAbort
from ..refs import components

TIERS = {"quick": 500, "thorough": 20000}
WATCHDOG_S = {"quick": 900, "thorough": 7200}
RULE = ("one case = one source container (end state of a generated 8-40 op history of Hypergraph, every 3rd case "
        "DirectedHypergraph) x all its selections: every node subset (<=6 nodes, else 24 random), every list of sizes "
        "within 1..5 (as orders or sizes, keep_nodes both), every (order|size 0..max+1, up_to, keep_isolated_nodes), the "
        "largest component, copy + mutation of either side. non-trivial = source has >=2 hyperedges, a gap in its edge "
        "ids is likely (>=1 removal) and non-empty metadata; distinct = by source abstract state")
DECIDING = ["C05:extract", "C05:source-unchanged", "C05:copy"]
ASSUMPTIONS = ["expected selections are computed from the source's public observation (hgxmon/observe.py)"]


class NullCtx:
    """history runner needs a ctx; the source-building phase is not judged here"""

    def __getattr__(self, k):
        return lambda *a, **kw: True


def expected(S, kind, keep_edge, nodes):
    """State with nodes `nodes` (dict n -> md taken from S) and the edges of S selected"""
    E = State(S.weighted)
    E.nodes = {n: copy.deepcopy(S.nodes[n]) for n in nodes}
    E.edges = {k: [v[0], copy.deepcopy(v[1])] for k, v in S.edges.items() if keep_edge(k)}
    return E


def judge(ctx, what, got_obj, E, wit):
    P = []
    try:
        G = observe(got_obj, P)
    except Exception as e:
        ctx.check("C05:extract", False, f"C05:{what}:result-unobservable:{type(e).__name__}", wit)
        return
    d = G.diff(E) + P
    ctx.check("C05:extract", not d, f"C05:{what}:" + ",".join(d),
              lambda: dict(wit(), got=G.describe(), expected=E.describe()))


def run_case(ctx, rng, idx):
    kind = "D" if idx % 3 == 2 else "H"
    big = idx in (0, 2) or (ctx.tier == "thorough" and idx % 500 in (9, 11))
    cfg = history.Cfg(rng, kind, big=big)
    if big:
        ctx.event("big-source")
        cfg.n_ops = rng.randint(150, 300)
    else:
        cfg.n_ops = rng.randint(8, 40)
    cfg.invalid_rate = 0.1  # refused calls are part of the build: they must leave no trace in what is measured
    cfg.avoid = {"clear", "copy"}
    raw = []
    if kind == "H" and (idx in (1, 3, 4, 7, 9, 10, 13, 15, 16, 19, 21, 22) or (ctx.tier == "thorough" and idx % 500 in (13, 15))):
        from ..gen import core_periphery

        ctx.event("core-periphery-source")
        h = core_periphery(rng, weighted=rng.random() < 0.4)
        trace = ["core_periphery"]
        cfg.uni_name = "wide"
        cfg.labels = list(h.get_nodes())[:12] + [10**6, 10**6 + 1]
    elif kind == "H" and (idx == 6 or (ctx.tier == "thorough" and idx % 500 == 18)):
        # many hyperedges (beyond 64 / 128 / 256), weighted with non-unit weights everywhere - also on the EMPTY hyperedge and on
        # singletons -, isolated nodes: a small selection touches a small part of a large source
        import hypergraphx as hgx

        ctx.event("many-hyperedges-source(with a weighted empty hyperedge)")
        n_ = rng.choice([30, 45, 60])
        labs = rng.sample(range(-40, 400), n_)
        h = hgx.Hypergraph(weighted=True)
        h.add_nodes(labs)
        target = rng.choice([70, 140, 300])
        while h.num_edges() < target:
            e = tuple(rng.sample(labs[: n_ - 3], rng.choice([1, 2, 2, 3, 3, 4, 5])))
            h.add_edge(e, weight=rng.choice([0.5, 2, 2.5, 3, 7]))
        # the empty hyperedge, reached the way a Hypergraph reaches it: a singleton whose only node is removed with keep_edges=True
        # (kept as () with its weight and metadata, or dropped - section 2.3; the source is whatever is observed afterwards)
        h.add_edge((10**6 + 7,), weight=2.5, metadata={"empty": True})
        h.remove_node(10**6 + 7, keep_edges=True)
        trace = ["many-hyperedges"]
        cfg.uni_name = "wide"
        cfg.labels = list(labs)[:12] + [10**6, 10**6 + 1]
    else:
        try:
            live, trace = history.run_history(history.BuildCtx(ctx, "C05"), rng, cfg, battery_every=0, raw=raw)
        except Exception as e:
            ctx.note("source-build-failed:" + type(e).__name__)
            return
        h = live[0][0]
    K = KEYS[kind]
    S0 = observe(h)
    # make sure metadata is present on nodes and hyperedges
    for n in list(S0.nodes)[::2]:
        h.set_node_metadata(n, {"name": repr(n), "g": rng.randint(0, 3), "l": [1, {"deep": [2]}]})
    for k in list(S0.edges)[::2]:
        if K.size(k) > 0:
            h.set_edge_metadata(*lib_args(kind, k), {"tag": rng.choice("xyz"), "n": [1, {"q": 2}]})
    S = observe(h)
    from hypergraphx.readwrite.hashing import hash_hypergraph as _hh

    def hash_hypergraph(x):
        if cfg.uni_name == "npint":  # numpy labels are not JSON-representable: hash not applicable
            return None
        return _hh(x)

    hash0 = hash_hypergraph(h)
    nontrivial = len(S.edges) >= 2 and any(S.nodes.values())

    def wit(sel=None):
        return {"source": S.describe() if len(S.edges) <= 30 else {"nodes": len(S.nodes), "edges": len(S.edges)}, "kind": kind,
                "selection": repr(sel)[:300], "build_ops": trace[-12:]}

    def unchanged(what):
        S1 = observe(h)
        ok = S1.same(S, with_hgmd=True)
        ctx.check("C05:source-unchanged", ok, f"C05:{what}:source-changed:" + ",".join(S1.diff(S, True)), lambda: wit(what))
        ctx.check("C05:source-unchanged", hash_hypergraph(h) == hash0, f"C05:{what}:source-hash-changed", lambda: wit(what))

    sizes = sorted({K.size(k) for k in S.edges})
    mx = max(sizes) if sizes else 0
    nodes = list(S.nodes)

    # ---- get_edges(..., subhypergraph=True) for H and D ------------------------------------
    filts = [None] + [("size", s) for s in range(0, mx + 2)] + [("order", s - 1) for s in range(0, mx + 2)]
    for f in filts:
        for up in ((False, True) if f else (False,)):
            for keep in (False, True):
                kw = {} if f is None else {f[0]: f[1]}
                if up:
                    kw["up_to"] = True
                size = None if f is None else (f[1] if f[0] == "size" else f[1] + 1)

                def keep_edge(k, size=size, up=up):
                    return size is None or (K.size(k) <= size if up else K.size(k) == size)

                try:
                    g = h.get_edges(subhypergraph=True, keep_isolated_nodes=keep, **kw)
                except Exception as e:
                    ctx.check("C05:extract", False, f"C05:get_edges(subhypergraph):raised:{type(e).__name__}", lambda: wit(kw))
                    continue
                sel_nodes = set(nodes) if keep else set().union(*[K.nodes(k) for k in S.edges if keep_edge(k)] or [set()])
                E = expected(S, kind, keep_edge, [n for n in nodes if n in sel_nodes])
                judge(ctx, f"get_edges(subhypergraph,keep_isolated={keep})", g, E, lambda: wit((kw, keep)))
    unchanged("get_edges(subhypergraph)")
    # diagnostic only (C05 claims later-mutation independence for copy(), not for extractions): does a structural
    # edit of an extraction show in its source?
    try:
        g = h.get_edges(subhypergraph=True, keep_isolated_nodes=True)
        mark = "__caller_edit__" if any(isinstance(n, str) for n in S.nodes) else -424242
        g.add_node(mark)
        if mark in h.get_nodes():
            ctx.note("diagnostic:extraction-shares-structure-with-its-source")
            h.remove_node(mark)
    except Exception:
        pass

    # ---- copy: equal, independent both ways -------------------------------------------------
    inc0 = None
    if hasattr(h, "set_incidence_metadata") and S.edges:
        # something attached to an incidence (hyperedge, node): part of what a copy must carry
        k_ = next((k for k in S.edges if K.size(k) > 0), None)
        if k_ is not None:
            try:
                e_ = lib_args(kind, k_)[0]
                h.set_incidence_metadata(e_, sorted(K.nodes(k_), key=repr)[0], {"role": ["chair", {"since": 3}]})
                inc0 = copy.deepcopy(dict(h.get_all_incidences_metadata()))
            except Exception as ex:
                ctx.note("incidence-metadata-not-settable:" + type(ex).__name__)
    c = h.copy()
    if inc0 is not None:
        inc1 = call(lambda: dict(c.get_all_incidences_metadata()))
        ctx.check("C05:copy", inc1 == inc0, "C05:copy:incidence-metadata-differs", lambda: wit((inc0, repr(inc1)[:300])))
        inc2 = call(lambda: dict(c.copy().get_all_incidences_metadata()))
        ctx.check("C05:copy", inc2 == inc0, "C05:copy:incidence-metadata-differs(copy of the copy)", lambda: wit((inc0, repr(inc2)[:300])))
    Sc = observe(c)
    ctx.check("C05:copy", Sc.same(S, with_hgmd=True) and type(c) is type(h), "C05:copy:differs:" + ",".join(Sc.diff(S, True)), wit)
    ctx.check("C05:copy", hash_hypergraph(c) == hash0, "C05:copy:hash-differs", wit)
    # values nested inside the metadata, edited IN PLACE through what the getters hand out (a copy that shares the inner
    # lists / dicts with its original is not independent of it)
    for target, other, name in ((c, h, "copy"), (h, c, "original")):
        S_other = observe(other)
        touched = 0
        for n in list(S.nodes)[:6]:
            md = call(target.get_node_metadata, n)
            if isinstance(md, dict) and isinstance(md.get("l"), list):
                md["l"].append("edited-" + name)
                if len(md["l"]) > 1 and isinstance(md["l"][1], dict):
                    md["l"][1]["deep"].append(name)
                touched += 1
        for k in list(S.edges)[:6]:
            if K.size(k) == 0:
                continue
            md = call(target.get_edge_metadata, *lib_args(kind, k))
            if isinstance(md, dict) and isinstance(md.get("n"), list):
                md["n"].append("edited-" + name)
                if len(md["n"]) > 1 and isinstance(md["n"][1], dict):
                    md["n"][1]["q"] = name
                touched += 1
        if touched:
            So = observe(other)
            ctx.check("C05:copy", So.same(S_other, with_hgmd=True), f"C05:copy:nested-metadata-edit-of-the-{name}-leaked:" + ",".join(So.diff(S_other, True)), wit)
    S = observe(h)  # (the original's nested values were edited above: judge what follows against its current content)
    hash0 = hash_hypergraph(h)
    mut_cfg = history.Cfg(rng, kind, uni=cfg.uni_name, weighted=S.weighted)
    mut_cfg.labels = cfg.labels
    mut_cfg.avoid = {"copy"}
    mut_cfg.invalid_rate = 0
    for target, other, name in ((c, h, "copy-mutated"), (h, c, "original-mutated")):
        St = observe(target)
        S_other = observe(other)
        for _ in range(6):
            op = history.gen_op(rng, mut_cfg, St)
            try:
                history.apply_op(target, kind, op, rng)
            except Exception:
                pass
            St = observe(target)
        So = observe(other)
        ctx.check("C05:copy", So.same(S_other, with_hgmd=True), f"C05:copy:{name}-leaked:" + ",".join(So.diff(S_other, True)), wit)
    if nontrivial:
        ctx.distinct_add(S.freeze())
    if idx % 50 == 0:
        ctx.sample({"source": S.describe(), "kind": kind})
    if kind == "D":
        return
    # h was mutated in the copy test: re-observe as the new source
    S = observe(h)
    hash0 = hash_hypergraph(h)
    nodes = list(S.nodes)
    sizes = sorted({K.size(k) for k in S.edges})
    mx = max(sizes) if sizes else 0

    # ---- induced sub-hypergraph --------------------------------------------------------------
    if len(nodes) <= 6:
        subsets = [list(c_) for r in range(0, len(nodes) + 1) for c_ in itertools.combinations(nodes, r)]
    else:
        subsets = [rng.sample(nodes, rng.randint(0, len(nodes))) for _ in range(24)] + [list(nodes)] + [rng.sample(nodes, k_) for k_ in (1, 2, 3, 4)]
    for sub in subsets:
        sub = list(sub)
        rng.shuffle(sub)
        try:
            g = h.subhypergraph(sub)
        except Exception as e:
            ctx.check("C05:extract", False, f"C05:subhypergraph:raised:{type(e).__name__}", lambda: wit(sub))
            continue
        ss = set(sub)
        E = expected(S, kind, lambda k: K.nodes(k) <= ss, sub)
        judge(ctx, "subhypergraph(nodes)", g, E, lambda: wit(sub))
    unchanged("subhypergraph")

    # ---- by orders / sizes -------------------------------------------------------------------
    base = [1, 2, 3, 4, 5]
    lists = [list(c_) for r in range(0, 6) for c_ in itertools.combinations(base, r)]
    if ctx.tier == "quick":
        lists = rng.sample(lists, 10) + [[], base]
    for sl in lists:
        sl = list(sl)
        rng.shuffle(sl)
        for keepn in (True, False):
            for as_orders in (False, True):
                kw = {"orders": [s - 1 for s in sl]} if as_orders else {"sizes": sl}
                try:
                    g = h.subhypergraph_by_orders(keep_nodes=keepn, **kw)
                except Exception as e:
                    ctx.check("C05:extract", False, f"C05:subhypergraph_by_orders:raised:{type(e).__name__}", lambda: wit(kw))
                    continue
                ke = lambda k: K.size(k) in sl
                sel_nodes = set(nodes) if keepn else set().union(*[K.nodes(k) for k in S.edges if ke(k)] or [set()])
                E = expected(S, kind, ke, [n for n in nodes if n in sel_nodes])
                judge(ctx, f"subhypergraph_by_orders(keep_nodes={keepn})", g, E, lambda: wit((kw, keepn)))
    unchanged("subhypergraph_by_orders")

    # ---- largest component -------------------------------------------------------------------
    if nodes:
        comps = components(S.nodes, [k for k in S.edges])
        big = max(len(c_) for c_ in comps)
        maximal = [c_ for c_ in comps if len(c_) == big]
        try:
            g = h.subhypergraph_largest_component()
            Gn = set(g.get_nodes())
            match = [c_ for c_ in maximal if c_ == Gn]
            ctx.check("C05:extract", bool(match), "C05:subhypergraph_largest_component:not-a-largest-component",
                      lambda: dict(wit(), got=sorted(map(repr, Gn)), maximal=[sorted(map(repr, c_)) for c_ in maximal]))
            if match:
                E = expected(S, kind, lambda k: K.nodes(k) <= Gn, [n for n in nodes if n in Gn])
                judge(ctx, "subhypergraph_largest_component", g, E, wit)
        except CaseAbort:
            raise
        except Exception as e:
            ctx.check("C05:extract", False, f"C05:subhypergraph_largest_component:raised:{type(e).__name__}", wit)
        unchanged("subhypergraph_largest_component")
        # ... restricted to the hyperedges of one size / order: the node set is a largest class of the reachability relation
        # generated by THOSE hyperedges (keyword and, in the method's documented order (size, order), positional)
        for s_ in rng.sample(sizes, min(len(sizes), 2)) if sizes else []:
            sel_s = [k for k in S.edges if K.size(k) == s_]
            comps_s = components(S.nodes, sel_s)
            big_s = max(len(c_) for c_ in comps_s)
            maximal_s = [c_ for c_ in comps_s if len(c_) == big_s]
            for form, fn in (("size", lambda: h.subhypergraph_largest_component(size=s_)), ("order", lambda: h.subhypergraph_largest_component(order=s_ - 1)),
                             ("positional-size", lambda: h.subhypergraph_largest_component(s_))):
                try:
                    g = fn()
                    Gn = set(g.get_nodes())
                    ok = any(c_ == Gn for c_ in maximal_s)
                    ctx.check("C05:extract", ok, f"C05:subhypergraph_largest_component({form}-filter):not-a-largest-component-under-the-filter",
                              lambda: dict(wit((form, s_)), got=sorted(map(repr, Gn)), maximal=[sorted(map(repr, c_)) for c_ in maximal_s][:3]))
                    if ok:  # whatever it contains is taken from the source unchanged and lies inside the component
                        G = observe(g)
                        sound = all(k in S.edges and K.nodes(k) <= Gn and G.edges[k][0] == S.edges[k][0] and G.edges[k][1] == S.edges[k][1] for k in G.edges) \
                            and all(G.nodes[n] == S.nodes[n] for n in G.nodes) and bool(G.weighted) == bool(S.weighted)
                        ctx.check("C05:extract", sound, f"C05:subhypergraph_largest_component({form}-filter):content-not-from-the-source", lambda: dict(wit((form, s_)), got=G.describe()))
                except CaseAbort:
                    raise
                except Exception as e:
                    ctx.check("C05:extract", False, f"C05:subhypergraph_largest_component({form}-filter):raised:{type(e).__name__}", lambda: wit((form, s_)))
        unchanged("subhypergraph_largest_component(filter)")
        # the same source again after an in-place edit that keeps the node and hyperedge counts
        from ..mutate import same_count_edit

        try:
            h.subhypergraph_largest_component()  # (a single-entry memo must hold THIS query when the edit happens)
        except Exception:
            pass
        if not getattr(run_case, "_in_second_pass", False) and same_count_edit(rng, h):
            ctx.event("re-evaluated-after-in-place-edit")
            S2 = observe(h)
            comps = components(S2.nodes, [k for k in S2.edges])
            big = max(len(c_) for c_ in comps)
            maximal = [c_ for c_ in comps if len(c_) == big]
            try:
                g = h.subhypergraph_largest_component()
                Gn = set(g.get_nodes())
                ok = any(c_ == Gn for c_ in maximal)
                ctx.check("C05:extract", ok, "C05:subhypergraph_largest_component:not-a-largest-component:after-in-place-edit",
                          lambda: {"source": S2.describe(), "got": sorted(map(repr, Gn)), "maximal": [sorted(map(repr, c_)) for c_ in maximal]})
                if ok:
                    E = expected(S2, kind, lambda k: K.nodes(k) <= Gn, [n for n in S2.nodes if n in Gn])
                    judge(ctx, "subhypergraph_largest_component:after-in-place-edit", g, E, lambda: {"source": S2.describe()})
            except CaseAbort:
                raise
            except Exception as e:
                ctx.check("C05:extract", False, f"C05:subhypergraph_largest_component:raised:{type(e).__name__}:after-in-place-edit", lambda: {"source": S2.describe()})
