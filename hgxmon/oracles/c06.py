"""C06: save -> load round trip (json text, hgx binary), hMETIS .hgr reader, HIF reader.

Objects are end states of generated histories of all four container types; files go to a
temp dir removed at the end of each case.  The file written by the text format is also
parsed independently, record by record."""
import copy
import json
import os
import shutil
import tempfile

from .. import history
from ..models import KEYS, sorted_key, State
from ..observe import observe, key_from_lib, lib_args

TIERS = {"quick": 1200, "thorough": 40000}
WATCHDOG_S = {"quick": 900, "thorough": 7200}
RULE = ("case kinds by index: 0,1 mod 4 = container round trip (history end state of H/D/T/M, both formats); "
        "2 mod 4 = generated .hgr file; 3 mod 4 = generated HIF document. non-trivial = object/file has >=2 hyperedges "
        "and (round trip) non-empty metadata or an isolated node; distinct = by abstract content of the object/file")
DECIDING = ["C06:roundtrip", "C06:save-does-not-mutate", "C06:hgr", "C06:hif"]
ASSUMPTIONS = ["node labels int or str, metadata JSON-representable; user metadata never uses the reserved keys weight/time/layer",
               ".hgr files use single-space separators in the header line; HIF documents carry nodes, edges and incidences arrays"]
RESERVED = ("weight", "time", "layer")
JSON_UNIS = ["small", "gaps", "bigneg", "str"]


class NullCtx:
    def __getattr__(self, k):
        return lambda *a, **kw: True


def jnorm(x):
    """what the value is in JSON terms - with the booleans marked, so that True and 1 (equal in Python, different in JSON and to
    every reader of the file) do not compare equal"""
    def mark(v):
        if isinstance(v, bool):
            return {"__bool__": str(v)}
        if isinstance(v, dict):
            return {k: mark(w) for k, w in v.items()}
        if isinstance(v, list):
            return [mark(w) for w in v]
        return v

    return mark(json.loads(json.dumps(x)))


def strip_reserved(md):
    if isinstance(md, dict):
        return {k: v for k, v in md.items() if k not in RESERVED}
    return md


def norm_state(S):
    T = State(S.weighted)
    T.nodes = {n: jnorm(m) for n, m in S.nodes.items()}
    T.edges = {k: [v[0], jnorm(strip_reserved(v[1]))] for k, v in S.edges.items()}
    T.hgmd = jnorm(S.hgmd)
    return T


def build_object(rng, kind, big=False, ctx=None):
    cfg = history.Cfg(rng, kind, uni=rng.choice(JSON_UNIS), big=big)
    if not big:
        cfg.n_ops = rng.randint(4, 30)
    cfg.invalid_rate = 0.1  # refused calls are part of the build: they must leave no trace in what is measured
    cfg.avoid = {"copy"} | ({"clear"} if rng.random() < 0.9 else set())
    live, trace = history.run_history(history.BuildCtx(ctx, "C06") if ctx is not None else NullCtx(), rng, cfg, battery_every=0)
    h = live[0][0]
    r = rng.random()
    if r < 0.4:
        h.set_attr_to_hypergraph_metadata(rng.choice(["name", "src", "note"]), rng.choice(["x", 3, [1, 2], {"a": None}]))
    elif r < 0.5:
        h.set_hypergraph_metadata({"custom": "only"})
    elif r < 0.58:  # user metadata that happens to use the bookkeeping key, disagreeing with the real flag
        h.set_attr_to_hypergraph_metadata("weighted", not h.is_weighted())
    if h.is_weighted() and rng.random() < 0.4:  # falsy weights must survive the round trip too
        from ..observe import lib_args, key_from_lib
        es = [e for e in h.get_edges() if len(e) > 0]
        if es:
            e = rng.choice(es)
            k = key_from_lib(kind, e)
            h.set_weight(*lib_args(kind, k), rng.choice([0, 0.0, 2**53 + 1, -3, 10**20]))
    if rng.random() < 0.15:
        # user metadata that happens to use the words the text format reserves, with values that disagree with the real
        # weight / time / layer: the round trip must bring back the real ones (the metadata is compared modulo these keys)
        from ..observe import lib_args, key_from_lib
        for e in h.get_edges():
            k = key_from_lib(kind, e)
            if KEYS[kind].size(k) > 0 and rng.random() < 0.5:
                h.set_attr_to_edge_metadata(*lib_args(kind, k), rng.choice(RESERVED), rng.choice([99, "zz", 7, 0]))
    if rng.random() < 0.35:
        # metadata values of every JSON kind next to each other - booleans (not the integers 1 / 0), strings that carry JSON
        # punctuation (a reader that "repairs" the text must leave string contents alone), empty containers
        rich = {"ok": True, "off": False, "one": 1, "zero": 0, "pattern": "\\d{2,}", "list-as-text": "[1, 2, ]", "obj-as-text": '{"a": 1, }',
                "quote": 'say "hi", ] then }', "empty": [], "none": None, "nested": {"flags": [True, 1, False, 0], "t": "x,\n]"}}
        try:
            ns_ = list(h.get_nodes())
            if ns_:
                n_ = rng.choice(ns_)
                for f_, v_ in rich.items():
                    h.set_attr_to_node_metadata(n_, f_, copy.deepcopy(v_))
            es_ = [e for e in h.get_edges() if len(e) > 0]
            if es_:
                from ..observe import lib_args as _la, key_from_lib as _kf
                k_ = _kf(kind, rng.choice(es_))
                if KEYS[kind].size(k_) > 0:
                    for f_, v_ in rich.items():
                        h.set_attr_to_edge_metadata(*_la(kind, k_), f_, copy.deepcopy(v_))
            h.set_attr_to_hypergraph_metadata("rich", copy.deepcopy(rich))
        except Exception:
            pass
    if rng.random() < 0.5:  # isolated node with metadata
        free = [n for n in cfg.labels if n not in h.get_nodes()]
        if free:
            h.add_node(free[0], {"iso": True})
    return h, cfg, trace


def many_records_case(ctx, rng, idx, tmp):
    """More than 100 000 records in one text file (50 001 nodes with metadata + 50 010 weighted hyperedges): nothing about the
    round trip depends on the number of records.  Compared through the listings (sets / dicts), not the per-node battery."""
    import hypergraphx as hgx
    from hypergraphx.readwrite import save_hypergraph, load_hypergraph

    ctx.event("100000-records")
    n = 50001
    h = hgx.Hypergraph(weighted=True)
    h.add_nodes(list(range(n)))
    edges = [(i, (i * 7 + 1) % n, (i * 13 + 5) % n) for i in range(n)]
    edges = [tuple(sorted(set(e))) for e in edges]
    edges = list(dict.fromkeys(e for e in edges if len(e) >= 2)) + [(i, i + 1) for i in range(0, 20, 2)]
    edges = list(dict.fromkeys(edges))
    h.add_edges(edges, weights=[1 + (i % 5) * 0.5 for i in range(len(edges))])
    for v in range(0, n, 5000):
        h.set_node_metadata(v, {"tag": v})
    for e in edges[::7000]:
        h.set_edge_metadata(e, {"mark": list(e)})
    W = h.get_weights(asdict=True)
    nodes0, nmd0 = set(h.get_nodes()), {v: h.get_node_metadata(v) for v in range(0, n, 5000)}

    def wit(x=None):
        return {"nodes": n, "hyperedges": len(edges), "extra": repr(x)[:300]}

    for fmt in ("json", "hgx"):
        path = os.path.join(tmp, f"big.{fmt}")
        try:
            save_hypergraph(h, path, binary=(fmt == "hgx"))
            g = load_hypergraph(path)
        except Exception as e:
            ctx.check("C06:roundtrip", False, f"C06:H:{fmt}:many-records:raised:{type(e).__name__}", lambda: wit(repr(e)))
            continue
        W2 = g.get_weights(asdict=True)
        ok = type(g) is type(h) and g.is_weighted() and set(g.get_nodes()) == nodes0 and W2 == W
        ctx.check("C06:roundtrip", ok, f"C06:H:{fmt}:many-records:loaded-differs", lambda: wit((len(W2), len(W), sorted(set(W) - set(W2))[:3], sorted(set(W2) - set(W))[:3])))
        okm = all(g.get_node_metadata(v) == nmd0[v] for v in nmd0) and all(strip_reserved(g.get_edge_metadata(e)) == {"mark": list(e)} for e in edges[::7000])
        ctx.check("C06:roundtrip", okm, f"C06:H:{fmt}:many-records:metadata-differs", wit)
        ctx.check("C06:save-does-not-mutate", h.get_weights(asdict=True) == W and set(h.get_nodes()) == nodes0, f"C06:H:{fmt}:many-records:save-mutated-object", wit)
    ctx.distinct_add(("many-records", n))


def record_count_boundaries_case(ctx, rng, idx, tmp):
    """Files whose number of records (1 header + nodes + hyperedges) is exactly, one below and one above the round numbers a
    writer or reader may batch by (powers of two from 64 to 8192; 100, 1000, 10000): the round trip does not depend on where a
    chunk happens to end.  Each container type in turn; compared through the listings."""
    import hypergraphx as hgx
    from hypergraphx.readwrite import save_hypergraph, load_hypergraph

    kind = "HDTM"[(idx // 4) % 4]
    ctx.event("record-count-boundaries:" + kind)
    rounds = [64, 128, 256, 512, 1024, 2048, 4096, 8192, 100, 1000, 10000]
    counts = sorted({r + d for r in rounds for d in (-1, 0, 1)})
    if ctx.tier == "quick":
        counts = [c for c in counts if c <= 4097 or c in (9999, 10000, 10001)][:: 1]
    for total in counts:
        n_nodes = max(4, total // 3)
        n_edges = total - 1 - n_nodes
        h = history.new_container(kind, True)
        h.add_nodes(list(range(n_nodes)))

        def args(i):
            # the i-th pair {a, a+k} in a fixed enumeration (all distinct), every third one widened to a triple
            k, a = 1 + i // n_nodes, i % n_nodes
            ns = (a, (a + k) % n_nodes) if i % 3 else (a, (a + k) % n_nodes, (a + 2 * k + 1) % n_nodes)
            ns = tuple(sorted(set(ns)))
            if kind == "D":
                return ((ns[0],), tuple(ns[1:]))
            return ns

        extra = {"H": lambda i: (), "D": lambda i: (), "T": lambda i: (i,), "M": lambda i: ("L%d" % i,)}[kind]
        for i in range(n_edges):
            # (time / layer = i keeps every record distinct for T and M; H and D use distinct node sets as far as they go)
            try:
                h.add_edge(args(i), *extra(i), weight=1 + (i % 4) * 0.5)
            except Exception as e:
                ctx.note("boundary-build-refused:" + type(e).__name__)
        S0 = observe(h)
        i_ = n_edges
        while 1 + len(S0.nodes) + len(S0.edges) < total and i_ < 3 * total:  # (node sets that coincided: top up to the exact count)
            try:
                h.add_edge(args(i_ * 2 + 1), *extra(i_), weight=2)
            except Exception:
                pass
            i_ += 1
            S0 = observe(h) if i_ % 8 == 0 or i_ >= 3 * total - 1 else S0
        S0 = observe(h)
        n_rec = 1 + len(S0.nodes) + len(S0.edges)
        if n_rec == total:
            ctx.event("record-count-exact")
        path = os.path.join(tmp, f"b{total}.json")

        def wit(x=None):
            return {"kind": kind, "records": n_rec, "nodes": len(S0.nodes), "hyperedges": len(S0.edges), "extra": repr(x)[:300]}

        try:
            save_hypergraph(h, path, binary=False)
            g = load_hypergraph(path)
            G = observe(g)
        except Exception as e:
            ctx.check("C06:roundtrip", False, f"C06:{kind}:json:record-count-boundary:raised:{type(e).__name__}", lambda: wit(repr(e)))
            continue
        d = norm_state(G).diff(norm_state(S0))
        ctx.check("C06:roundtrip", not d and type(g) is type(h), f"C06:{kind}:json:record-count-boundary:loaded-differs:" + ",".join(d), wit)
        ctx.set_add("record-counts", n_rec)
        os.remove(path)
    ctx.distinct_add(("record-count-boundaries", kind))


def run_case(ctx, rng, idx):
    mode = idx % 4
    tmp = tempfile.mkdtemp(prefix="hgx_c06_")
    try:
        if idx in (12, 16, 20, 24) or (ctx.tier == "thorough" and idx % 8000 in (12, 16, 20, 24)):
            record_count_boundaries_case(ctx, rng, idx, tmp)
        elif idx == 8 or (ctx.tier == "thorough" and idx % 8000 == 8):
            many_records_case(ctx, rng, idx, tmp)
        elif mode in (0, 1):
            roundtrip_case(ctx, rng, idx, tmp)
        elif mode == 2:
            hgr_case(ctx, rng, idx, tmp)
        else:
            hif_case(ctx, rng, idx, tmp)
    finally:
        shutil.rmtree(tmp, ignore_errors=True)


# ---------------------------------------------------------------------------------------
def roundtrip_case(ctx, rng, idx, tmp):
    from hypergraphx.readwrite import save_hypergraph, load_hypergraph

    kind = "HDTM"[(idx // 4) % 4]
    try:
        big = idx in (0, 1, 4, 5) or (ctx.tier == "thorough" and idx % 800 == 8)
        if big:
            ctx.event("big-object")
        h, cfg, trace = build_object(rng, kind, big=big, ctx=ctx)
    except Exception as e:
        ctx.note("object-build-failed:" + type(e).__name__)
        return
    K = KEYS[kind]
    before = observe(h)
    ctx.event("object:" + kind)

    def wit(extra=None):
        return {"kind": kind, "object": before.describe() if len(before.edges) <= 30 else {"nodes": len(before.nodes), "edges": len(before.edges)},
                "hgmd": before.hgmd, "extra": extra, "build_ops": trace[-10:]}

    for fmt in ("json", "hgx"):
        path = os.path.join(tmp, f"obj.{fmt}")
        pre = observe(h)
        try:
            save_hypergraph(h, path, binary=(fmt == "hgx"))
        except Exception as e:
            ctx.check("C06:roundtrip", False, f"C06:{kind}:{fmt}:save-raised:{type(e).__name__}", lambda: wit(repr(e)))
            continue
        after = observe(h)
        d = after.diff(pre, with_hgmd=True)
        ctx.check("C06:save-does-not-mutate", not d, f"C06:{kind}:{fmt}:save-mutated-object:" + ",".join(d),
                  lambda: dict(wit(), after=after.describe()))
        if d:  # keep judging the load against the original content
            pass
        try:
            g = load_hypergraph(path)
        except Exception as e:
            ctx.check("C06:roundtrip", False, f"C06:{kind}:{fmt}:load-raised:{type(e).__name__}", lambda: wit(repr(e)))
            continue
        ctx.check("C06:roundtrip", type(g) is type(h), f"C06:{kind}:{fmt}:type-changed", lambda: wit(type(g).__name__))
        if type(g) is not type(h):
            continue
        P = []
        try:
            G = observe(g, P)
        except Exception as e:
            ctx.check("C06:roundtrip", False, f"C06:{kind}:{fmt}:loaded-object-unobservable:{type(e).__name__}", lambda: wit(repr(e)))
            continue
        A, B = norm_state(G), norm_state(before)
        d = A.diff(B, with_hgmd=True) + P
        if not d and any(A.edges[k][0] != B.edges[k][0] for k in A.edges):
            d = ["weights(not bit-exact)"]  # a round trip must give the very same numbers back
        ctx.check("C06:roundtrip", not d, f"C06:{kind}:{fmt}:loaded-differs:" + ",".join(d),
                  lambda: dict(wit(), loaded=G.describe(), loaded_hgmd=G.hgmd))
        if fmt == "json":
            check_file_records(ctx, kind, path, before, wit)
        if not d and rng.random() < 0.5:
            second_generation(ctx, rng, kind, g, fmt, tmp, cfg, wit)
        if not d and idx % 3 != 2:
            # the same, untouched file loaded a second time after the FIRST loaded object was edited through the public setters:
            # what is on disk has not changed, so the second load must again be the saved object
            try:
                for n in list(G.nodes)[:3]:
                    g.set_attr_to_node_metadata(n, "seen", True)
                for k in [k for k in G.edges if K.size(k) > 0][:3]:
                    g.set_attr_to_edge_metadata(*lib_args(kind, k), "seen", True)
                g.set_attr_to_hypergraph_metadata("seen", True)
            except Exception as e:
                ctx.note("edit-of-first-loaded-object-refused:" + type(e).__name__)
            ctx.event("same-file-loaded-again")
            try:
                g3 = load_hypergraph(path)
                P3 = []
                G3 = observe(g3, P3)
                d3 = norm_state(G3).diff(B, with_hgmd=True) + P3
            except Exception as e:
                d3 = ["raised:" + type(e).__name__]
            ctx.check("C06:roundtrip", not d3, f"C06:{kind}:{fmt}:same-file-loaded-again-differs(after the first loaded object was edited):" + ",".join(d3), wit)
    if len(before.edges) >= 2 and (any(before.nodes.values()) or any(not any(n in K.nodes(k) for k in before.edges) for n in before.nodes)):
        ctx.distinct_add(("rt", kind, before.freeze()))
    if idx % 80 == 0:
        ctx.sample({"mode": "roundtrip", "kind": kind, "object": before.describe()})


def second_generation(ctx, rng, kind, g, fmt, tmp, cfg, wit):
    """The LOADED object is a hypergraph like any other (its hyperedge metadata now carries the reserved keys the text
    format stores next to it): edit it through the public API - new weights, metadata, an insertion, a removal - and
    round-trip it again.  What comes back must be the edited object, not what the first file said."""
    from hypergraphx.readwrite import save_hypergraph, load_hypergraph
    from ..observe import lib_args

    S = observe(g)
    ekeys = sorted(S.edges, key=lambda k: repr(sorted_key(k)))
    n_edit = 0
    for k in rng.sample(ekeys, min(len(ekeys), 3)):
        if KEYS[kind].size(k) == 0:
            continue
        try:
            if S.weighted:
                g.set_weight(*lib_args(kind, k, rng), rng.choice([0.5, 3, 7, 2.5, 10.0]))
                n_edit += 1
            if rng.random() < 0.5:
                g.set_attr_to_edge_metadata(*lib_args(kind, k, rng), "gen", 2)
                n_edit += 1
        except Exception as e:
            ctx.note("second-generation-edit-refused:" + type(e).__name__)
    try:
        for _ in range(rng.randint(0, 3)):
            op = history.gen_op(rng, cfg, observe(g))
            if op[0] in ("copy", "clear"):
                continue
            try:
                history.apply_op(g, kind, op, rng)
                n_edit += 1
            except Exception:
                pass
    except Exception as e:
        ctx.note("second-generation-op-generation-failed:" + type(e).__name__)
    # ... and always one NEW hyperedge sharing a node with an existing one: whatever the loader restored (id counters, incidence
    # tables) must carry the object on through further edits
    expected = None
    try:
        S_now = observe(g)
        nk = history.absent_key(rng, cfg, S_now)
        if nk is not None and KEYS[kind].size(nk) > 0:
            history.apply_op(g, kind, ("add_edge", {"key": nk, "w": 2 if S_now.weighted else None, "md": {"new": True}}), rng)
            n_edit += 1
            expected = S_now.copy()
            expected.edges[nk] = [2 if S_now.weighted else 1, {"new": True}]
            for n in KEYS[kind].nodes(nk):
                expected.nodes.setdefault(n, {})
    except Exception as e:
        ctx.note("second-generation-insertion-refused:" + type(e).__name__)
    if not n_edit:
        return
    P1 = []
    try:
        G1 = observe(g, P1)
    except Exception as e:
        ctx.check("C06:roundtrip", False, f"C06:{kind}:{fmt}:second-generation:edited-loaded-object-unobservable:{type(e).__name__}", lambda: wit(repr(e)))
        return
    if P1:
        ctx.check("C06:roundtrip", False, f"C06:{kind}:{fmt}:second-generation:edited-loaded-object-inconsistent:" + P1[0], lambda: wit(P1[:4]))
        return
    if expected is not None:
        # the insertion into the loaded object is judged like any insertion: everything else stays, the new hyperedge is there
        # with its own weight and metadata, and the incidence / degree views agree with the listings
        ctx.event("second-generation-insertion-judged")
        df = expected.diff(G1)
        if not ctx.check("C06:roundtrip", not df, f"C06:{kind}:{fmt}:second-generation:insertion-into-loaded-object:" + ",".join(df),
                         lambda: wit({"inserted": repr(nk), "expected": expected.describe(), "got": G1.describe()})):
            return
        import hgxmon.battery as bat
        bat.battery(ctx, g, G1, rng, tag=f"C06:{kind}:second-generation", wit=lambda: wit("after inserting " + repr(nk)))
    path = os.path.join(tmp, f"gen2.{fmt}")
    ctx.event("second-generation-roundtrip:" + fmt)
    try:
        save_hypergraph(g, path, binary=(fmt == "hgx"))
        g2 = load_hypergraph(path)
        P = []
        G2 = observe(g2, P)
    except Exception as e:
        ctx.check("C06:roundtrip", False, f"C06:{kind}:{fmt}:second-generation:raised:{type(e).__name__}", lambda: wit(repr(e)))
        return
    A, B = norm_state(G2), norm_state(G1)
    d = A.diff(B, with_hgmd=True) + P
    ctx.check("C06:roundtrip", not d, f"C06:{kind}:{fmt}:second-generation:loaded-differs:" + ",".join(d),
              lambda: dict(wit(), edited=G1.describe(), loaded=G2.describe()))


def check_file_records(ctx, kind, path, before, wit):
    """independent parse of the text file: one node record per node, one edge record per hyperedge"""
    try:
        with open(path) as fh:
            items = json.load(fh)
    except Exception as e:
        ctx.note(f"diagnostic:{kind}:json:file-not-a-json-array")
        return
    nodes = [x for x in items if isinstance(x, dict) and x.get("type") == "node"]
    edges = [x for x in items if isinstance(x, dict) and x.get("type") == "edge"]
    # the on-disk layout is not part of the property (only the round trip is): recorded as a diagnostic
    ok = sorted(map(repr, (x["idx"] for x in nodes))) == sorted(map(repr, before.nodes))
    ctx.tick("C06:file-records")
    if not ok:
        ctx.note(f"diagnostic:{kind}:json:node-records-differ-from-nodes")
    keys = []
    for x in edges:
        it, md = x["interaction"], x.get("metadata", {})
        if kind == "H":
            keys.append(frozenset(it))
        elif kind == "D":
            keys.append((frozenset(it[0]), frozenset(it[1])))
        elif kind == "T":
            keys.append((md.get("time"), frozenset(it)))
        else:
            keys.append((frozenset(it), md.get("layer")))
    ok = len(keys) == len(before.edges) and set(keys) == set(before.edges)
    ctx.tick("C06:file-records")
    if not ok:
        ctx.note(f"diagnostic:{kind}:json:edge-records-differ-from-hyperedges")


# ---------------------------------------------------------------------------------------
def hgr_case(ctx, rng, idx, tmp):
    from hypergraphx.readwrite import load_hypergraph

    n_nodes = rng.randint(2, 9)
    fmt = rng.choice([None, 1, 10, 11, None, 1])
    n_edges = rng.randint(1, 8)
    big = idx in (2, 6) or (ctx.tier == "thorough" and idx % 400 == 10)
    if big:  # files well beyond any internal buffer size
        ctx.event("big-hgr-file")
        n_nodes = rng.randint(40, 90)
        n_edges = rng.randint(1500, 4000)
    edges, seen = [], set()
    for _ in range(n_edges):
        e = rng.sample(range(1, n_nodes + 1), rng.randint(1, min(5, n_nodes)) if not big else rng.randint(2, 6))
        if frozenset(e) in seen:
            continue
        seen.add(frozenset(e))
        edges.append((e, rng.randint(1, 9)))
    weighted = fmt is not None and fmt % 10 == 1
    if weighted:  # a weighted line needs weight + >=1 node; reader also demands len(entries) > 1: always true
        pass
    lines = []

    def noise():
        r = rng.random()
        if r < 0.25:
            lines.append("% " + rng.choice(["comment", "3 4 5", "%", " edges follow"]))
        elif r < 0.35:
            lines.append(rng.choice(["", "   ", "\t"]))

    noise()
    lines.append(f"{len(edges)} {n_nodes}" + ("" if fmt is None else f" {fmt}"))
    for e, w in edges:
        noise()
        body = " ".join(map(str, e))
        if weighted:
            body = f"{w} {body}"
        if rng.random() < 0.2:
            body = " " + body + " "
        if rng.random() < 0.15:
            body = body.replace(" ", "  ", 1)
        lines.append(body)
    if fmt in (10, 11):
        for i in range(n_nodes):
            noise()
            lines.append(str(rng.randint(1, 5)))
    noise()
    text = "\n".join(lines) + ("\n" if rng.random() < 0.7 else "")
    path = os.path.join(tmp, "g.hgr")
    with open(path, "w") as fh:
        fh.write(text)

    def wit(extra=None):
        return {"file": text if len(text) < 3000 else text[:1500] + " ...[%d chars]" % len(text), "extra": extra}

    try:
        g = load_hypergraph(path)
    except BaseException as e:
        ctx.check("C06:hgr", False, f"C06:hgr:load-raised:{type(e).__name__}", lambda: wit(repr(e)))
        return
    exp = {frozenset(e): (w if weighted else 1) for e, w in edges}
    got = {frozenset(e): g.get_weight(e) for e in g.get_edges()}
    ctx.check("C06:hgr", type(g).__name__ == "Hypergraph", "C06:hgr:not-a-Hypergraph", wit)
    ctx.check("C06:hgr", set(got) == set(exp), "C06:hgr:hyperedges-differ", lambda: wit({"got": sorted(map(sorted, got))}))
    ctx.check("C06:hgr", got == exp, "C06:hgr:weights-differ", lambda: wit({"got": {repr(sorted(k)): v for k, v in got.items()}}))
    ctx.check("C06:hgr", bool(g.is_weighted()) == weighted, "C06:hgr:weightedness", wit)
    ctx.check("C06:hgr", set(g.get_nodes()) >= set().union(*exp), "C06:hgr:member-node-missing", wit)
    if len(edges) >= 2:
        ctx.distinct_add(("hgr", fmt, tuple(sorted((tuple(sorted(e)), w if weighted else 1) for e, w in edges))))
    if idx % 80 == 2:
        ctx.sample({"mode": "hgr", "file": text})


# ---------------------------------------------------------------------------------------
def hif_case(ctx, rng, idx, tmp):
    from hypergraphx.readwrite import read_hif

    names_n = rng.choice([["a", "b", "c", "d", "e", "f"], [10, 20, 30, 40, 50], ["n1", 2, "3", 4.5, "x"]])
    names_e = rng.choice([["e1", "e2", "e3", "e4", "e5"], [0, 1, 2, 3, 4], ["A", 7, "B", "C", 9]])
    n_e = rng.randint(1, len(names_e))
    allow_dup_sets = rng.random() < 0.3
    members, seen = {}, set()
    for en in names_e[:n_e]:
        m = rng.sample(names_n, rng.randint(1, min(4, len(names_n))))
        if allow_dup_sets and seen and rng.random() < 0.4:
            m = list(rng.choice(sorted(seen, key=lambda x: sorted(map(repr, x)))))  # same node set under another edge name
        if frozenset(m) in seen and not allow_dup_sets:
            continue
        seen.add(frozenset(m))
        members[en] = m
    if not members:
        return
    incidences = []
    for en, m in members.items():
        for nn in m:
            rec = {"edge": en, "node": nn}
            if rng.random() < 0.5:
                rec["weight"] = rng.choice([1, 2.5, -1])
            if rng.random() < 0.3:
                rec["attrs"] = {"role": rng.choice(["in", "out"])}
            incidences.append(rec)
    rng.shuffle(incidences)
    used_nodes = sorted({nn for m in members.values() for nn in m}, key=repr)
    extra_nodes = [n for n in names_n if n not in used_nodes][: rng.randint(0, 2)]
    node_recs = []
    for nn in used_nodes + extra_nodes:
        if nn in extra_nodes or rng.random() < 0.8:
            rec = {"node": nn}
            if rng.random() < 0.5:
                rec["attrs"] = {"color": rng.choice(["r", "g"]), "k": [1, {"z": None}]}
            if rng.random() < 0.3:
                rec["weight"] = 2
            node_recs.append(rec)
    rng.shuffle(node_recs)
    edge_recs = []
    for en in members:
        if rng.random() < 0.8:
            rec = {"edge": en}
            if rng.random() < 0.5:
                rec["attrs"] = {"kind": rng.choice(["x", "y"])}
            edge_recs.append(rec)
    empty_edge = None
    if rng.random() < 0.2:
        empty_edge = "lonely"
        edge_recs.append({"edge": empty_edge, "attrs": {"empty": True}})
    rng.shuffle(edge_recs)
    doc = {"incidences": incidences, "nodes": node_recs, "edges": edge_recs}
    t = rng.choice(["undirected", "asc", None])
    if t:
        doc["network-type"] = t
        doc["type"] = t
    if rng.random() < 0.5:
        doc["metadata"] = {"name": "gen", "v": [1, 2]}
    path = os.path.join(tmp, "g.hif.json")
    with open(path, "w") as fh:
        json.dump(doc, fh)
    docc = copy.deepcopy(doc)

    def wit(extra=None):
        return {"doc": docc, "extra": extra}

    import contextlib
    import io

    try:
        with contextlib.redirect_stdout(io.StringIO()):
            H = read_hif(path)
    except Exception as e:
        ctx.check("C06:hif", False, f"C06:hif:read-raised:{type(e).__name__}", lambda: wit(repr(e)))
        return
    # recover the reader's name -> id renaming from what it stores
    name2id, id2name, clash = {}, {}, []

    def bind(name, uid):
        key = repr(name)
        if name2id.setdefault(key, uid) != uid or id2name.setdefault(uid, key) != key:
            clash.append((key, uid))

    for uid in H.get_nodes():
        md = H.get_node_metadata(uid)
        if isinstance(md, dict) and "node" in md:
            bind(md["node"], uid)
    inc_md = H.get_all_incidences_metadata()
    for (e, uid), rec in inc_md.items():
        if isinstance(rec, dict) and "node" in rec:
            bind(rec["node"], uid)
    all_names = {repr(r["node"]) for r in docc["incidences"]} | {repr(r["node"]) for r in docc["nodes"]}
    ctx.check("C06:hif", not clash and set(name2id) == all_names and len(set(name2id.values())) == len(name2id),
              "C06:hif:node-renaming-not-a-consistent-bijection", lambda: wit({"name2id": name2id, "clash": clash}))
    if clash or set(name2id) != all_names:
        return
    ctx.check("C06:hif", set(H.get_nodes()) == set(name2id.values()), "C06:hif:node-set-differs",
              lambda: wit({"nodes": H.get_nodes(), "name2id": name2id}))
    exp_sets = {en: frozenset(name2id[repr(nn)] for nn in m) for en, m in members.items()}
    got = {frozenset(e) for e in H.get_edges()}
    ctx.check("C06:hif", got == set(exp_sets.values()) and len(H.get_edges()) == len(got), "C06:hif:hyperedges-differ",
              lambda: wit({"got": sorted(map(sorted, got)), "expected": sorted(map(sorted, exp_sets.values())), "name2id": name2id}))
    for rec in docc["nodes"]:
        uid = name2id[repr(rec["node"])]
        ctx.check("C06:hif", H.get_node_metadata(uid) == rec, "C06:hif:node-record-not-retrievable", lambda: wit(rec))
    dup = len(set(exp_sets.values())) != len(exp_sets)
    if not dup:
        for rec in docc["edges"]:
            if rec["edge"] in exp_sets:
                e = tuple(sorted(exp_sets[rec["edge"]]))
                try:
                    ok = H.get_edge_metadata(e) == rec
                except Exception:
                    ok = False
                ctx.check("C06:hif", ok, "C06:hif:edge-record-not-retrievable", lambda: wit(rec))
        for rec in docc["incidences"]:
            e = tuple(sorted(exp_sets[rec["edge"]]))
            try:
                ok = H.get_incidence_metadata(e, name2id[repr(rec["node"])]) == rec
            except Exception:
                ok = False
            ctx.check("C06:hif", ok, "C06:hif:incidence-record-not-retrievable", lambda: wit(rec))
    else:
        ctx.note("hif:duplicate-incidence-sets")
        # several edge names describe one node set: whichever record wins, it must be one of theirs (not lost)
        by_set = {}
        for rec in docc["edges"]:
            if rec["edge"] in exp_sets:
                by_set.setdefault(exp_sets[rec["edge"]], []).append(rec)
        for fs, recs in by_set.items():
            try:
                got = H.get_edge_metadata(tuple(sorted(fs)))
            except Exception:
                got = None
            ctx.check("C06:hif", got in recs, "C06:hif:edge-record-lost(duplicate incidence sets)", lambda: wit((got, recs)))
    if "metadata" in docc:
        ctx.check("C06:hif", H.get_hypergraph_metadata() == docc["metadata"], "C06:hif:document-metadata-differs", wit)
    if len(members) >= 2:
        ctx.distinct_add(("hif", json.dumps(docc, sort_keys=True, default=repr)))
    if idx % 80 == 3:
        ctx.sample({"mode": "hif", "doc": docc})
