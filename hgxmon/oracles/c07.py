"""C07: hash_hypergraph is a canonical fingerprint — metamorphic oracle over pairs of executions.

equality:   one abstract content, 4-8 different construction histories -> all hashes equal
difference: every single-element edit of the content -> a different hash
global:     per process two tables obs->hash and hash->obs; any conflict is a violation
purity:     the observation of an object is the same before and after hashing it
"""
import copy
import json

from .. import history
from ..models import KEYS, State, sorted_key
from ..observe import observe, lib_args

TIERS = {"quick": 600, "thorough": 30000}
WATCHDOG_S = {"quick": 900, "thorough": 7200}
RULE = ("one case = one generated abstract content (2-6 nodes+isolated ones, 2-6 hyperedges, metadata, one numeric "
        "type per weight) of one container type (round robin H,D,T,M) built by 4-8 different histories (shuffled "
        "insertion, permuted node order, nodes before/after edges, insert-then-remove detours of hyperedges and "
        "nodes, weight by insertion / accumulation / set_weight) plus every applicable single-element edit. "
        "non-trivial = >=2 hyperedges and >=3 successful constructions; distinct = by typed abstract content")
DECIDING = ["C07:equal-content-equal-hash", "C07:edit-changes-hash", "C07:hash-pure", "C07:global-tables"]
ASSUMPTIONS = ["labels int or str (one type per object), metadata JSON-representable",
               "content equality is typed: weights 1 and 1.0 are different contents ('same numeric type')"]

OBS2HASH = {}
HASH2OBS = {}
UNIS = {"int": [0, 1, 2, 3, 5, 8, 13, 40, 100, -3], "str": ["a", "b", "c", "E1", "N", "10", "zz", "x y"]}
LAYERS = ["l1", "l2", "work"]
MDS = [{}, {}, {"a": 1}, {"c": "x", "n": {"k": [1, 2]}}, {"z": None, "a": 2.5}, {"path": [1, 2, 3]}, {"tags": ["b", "a"]}]


def typed(S):
    """typed canonical content: distinguishes 1 from 1.0, ignores dict order"""
    return json.dumps(
        [bool(S.weighted),
         sorted([repr(n), json.dumps(m, sort_keys=True)] for n, m in S.nodes.items()),
         sorted([repr(sorted_key(k)), repr(v[0]), json.dumps(v[1], sort_keys=True)] for k, v in S.edges.items()),
         json.dumps(S.hgmd, sort_keys=True)])


HUGE_TIMES = [2**53, 2**53 + 1, 2**53 + 2, 2**60, 2**60 + 1, 2**63, 2**63 + 1]


def gen_content(rng, kind, huge_times=False):
    uni = rng.choice(list(UNIS))
    labels = rng.sample(UNIS[uni], rng.randint(3, 6))
    weighted = rng.random() < 0.6
    wtype = rng.choice(["int", "float"])
    C = State(weighted)
    n_e = rng.randint(2, 6)
    K = KEYS[kind]
    for _ in range(n_e * 3):
        if len(C.edges) >= n_e:
            break
        ns = rng.sample(labels, rng.randint(1, min(4, len(labels))))
        if kind == "H":
            k = frozenset(ns)
        elif kind == "D":
            if len(ns) < 2:
                continue
            cut = rng.randint(1, len(ns) - 1)
            k = (frozenset(ns[:cut]), frozenset(ns[cut:]))
        elif kind == "T":
            k = (rng.randint(0, 3), frozenset(ns))
            if huge_times:
                # time stamps that are different integers but the same float, the SAME node set at both of them
                i_ = rng.randrange(len(HUGE_TIMES) - 1)
                k = (HUGE_TIMES[i_], frozenset(ns))
                k2 = (HUGE_TIMES[i_ + 1], frozenset(ns))
                if k2 not in C.edges and rng.random() < 0.7:
                    C.edges[k2] = [rng.choice([1, 2, 3]) if weighted and wtype == "int" else 1.5 if weighted else 1, copy.deepcopy(rng.choice(MDS))]
        else:
            k = (frozenset(ns), rng.choice(LAYERS))
        if k in C.edges:
            continue
        if weighted:
            w = rng.choice([1, 2, 3, 5]) if wtype == "int" else rng.choice([0.5, 1.0, 1.5, 2.5, 4.0])
        else:
            w = 1
        C.edges[k] = [w, copy.deepcopy(rng.choice(MDS))]
    used = set().union(*[K.nodes(k) for k in C.edges]) if C.edges else set()
    for n in labels:
        if n in used or rng.random() < 0.5:
            C.nodes[n] = copy.deepcopy(rng.choice(MDS)) if rng.random() < 0.5 else {}
    C.hgmd = {}
    if rng.random() < 0.5:
        C.hgmd = {"name": rng.choice(["g", "h"]), "info": {"v": [1, 2]}}
    C.replace_hgmd = rng.random() < 0.2  # the user replaces the whole metadata dict (bookkeeping keys gone)
    return C, labels, uni


def construct(rng, kind, C, labels, style):
    """build content C through the public API following a randomised style; returns object"""
    h = history.new_container(kind, C.weighted)
    K = KEYS[kind]
    spare = [x for x in (UNIS["int"] if isinstance(labels[0], int) else UNIS["str"]) if x not in C.nodes]
    for f, v in (sorted(C.hgmd.items()) if style["hg_sorted"] else reversed(sorted(C.hgmd.items()))):
        h.set_attr_to_hypergraph_metadata(f, copy.deepcopy(v))
    nodes = list(C.nodes)
    rng.shuffle(nodes)
    edges = list(C.edges)
    rng.shuffle(edges)
    setmd = hasattr(h, "set_node_metadata")

    def add_nodes_now():
        for n in nodes:
            md = copy.deepcopy(C.nodes[n])
            if style["nodes_first"] or not setmd:
                h.add_node(n, md) if md else h.add_node(n)
            else:
                h.add_node(n)
                h.set_node_metadata(n, md)

    def detour():
        r = rng.random()
        if r < 0.4 and spare:  # extra node in and out
            x = rng.choice(spare)
            h.add_node(x, {"tmp": 1})
            if rng.random() < 0.5 and C.nodes:
                y = rng.choice(list(C.nodes))
                k = _mk(kind, [x, y], rng)
                if k is not None:
                    _add(h, kind, k, None, {"tmp": 2}, rng)
            h.remove_node(x)
        elif r < 0.8:  # extra hyperedge in and out
            for _ in range(5):
                ns = rng.sample(list(C.nodes), min(len(C.nodes), rng.randint(1, 3))) if C.nodes else []
                k = _mk(kind, ns, rng) if ns else None
                if k is not None and k not in C.edges and K.nodes(k) <= set(pre_nodes):
                    _add(h, kind, k, None, {"tmp": 3}, rng)
                    _remove(h, kind, k, rng)
                    break

    pre_nodes = set()
    if style["nodes_first"] or not setmd:
        add_nodes_now()
        pre_nodes = set(C.nodes)
    for k in edges:
        w, md = C.edges[k]
        if style["detours"] and rng.random() < 0.4:
            detour()
        how = rng.choice(["direct", "accumulate", "set_weight"]) if C.weighted else "direct"
        can_set_md = hasattr(h, "set_edge_metadata")
        md_later = can_set_md and rng.random() < 0.4
        md0 = None if md_later else copy.deepcopy(md)
        if how == "direct":
            _add(h, kind, k, w if C.weighted else None, md0, rng)
        elif how == "accumulate":
            if isinstance(w, int) and w >= 2:
                a = rng.randint(1, w - 1)
                parts = [a, w - a]
            elif isinstance(w, float) and w >= 1.0:
                parts = [0.5, w - 0.5]
            else:
                parts = [w]
            for p in parts:
                _add(h, kind, k, p, md0, rng)
        else:
            other = type(w)(7)
            _add(h, kind, k, other, md0, rng)
            h.set_weight(*lib_args(kind, k, rng), w)
        if md_later:
            h.set_edge_metadata(*lib_args(kind, k, rng), copy.deepcopy(md))
        pre_nodes |= K.nodes(k)
    if not (style["nodes_first"] or not setmd):
        add_nodes_now()
    if style["detours"]:
        pre_nodes = set(C.nodes)
        detour()
    if getattr(C, "replace_hgmd", False):
        h.set_hypergraph_metadata(copy.deepcopy(dict(C.hgmd)))
    return h


def _mk(kind, ns, rng):
    if kind == "H":
        return frozenset(ns)
    if kind == "D":
        if len(ns) < 2:
            return None
        return (frozenset(ns[:1]), frozenset(ns[1:]))
    if kind == "T":
        return (rng.randint(0, 4), frozenset(ns))
    return (frozenset(ns), rng.choice(LAYERS + ["tmp"]))


def _add(h, kind, k, w, md, rng):
    a = lib_args(kind, k, rng)
    kw = {}
    if w is not None:
        kw["weight"] = w
    if md is not None:
        kw["metadata"] = md
    h.add_edge(*a, **kw)


def _remove(h, kind, k, rng):
    a = lib_args(kind, k, rng)
    if kind == "M":
        h.remove_edge((a[0], a[1]))
    else:
        h.remove_edge(*a)


def hash_pure(ctx, h, kind, wit):
    from hypergraphx.readwrite.hashing import hash_hypergraph

    before = observe(h)
    hv = hash_hypergraph(h)
    hv2 = hash_hypergraph(h)
    after = observe(h)
    ctx.check("C07:hash-pure", after.same(before, with_hgmd=True) and hv == hv2,
              f"C07:{kind}:hashing-changed-object-or-unstable:" + ",".join(after.diff(before, True)), wit)
    t = (kind, typed(after))
    # global tables
    ok1 = OBS2HASH.setdefault(t, hv) == hv
    ok2 = HASH2OBS.setdefault(hv, t) == t
    ctx.check("C07:global-tables", ok1, f"C07:{kind}:same-content-two-hashes(global)", wit)
    ctx.check("C07:global-tables", ok2, f"C07:{kind}:two-contents-one-hash(global)",
              lambda: dict(wit(), other=HASH2OBS[hv][1][:800]))
    return hv, t


def nodes_only_case(ctx, rng, idx):
    """Hypergraphs WITHOUT hyperedges: the node set is all there is, so node labels that differ only in type (1 vs "1")
    or nodes that differ only in their metadata must still separate the hashes; insertion order must not."""
    from hypergraphx.readwrite.hashing import hash_hypergraph
    from ..history import new_container

    kind = "HDTM"[(idx // 4) % 4]
    ints = rng.sample([0, 1, 2, 3, 5, 8, 13, 40, 100], rng.randint(1, 4))
    mds = {n: copy.deepcopy(rng.choice(MDS)) for n in ints}
    weighted = rng.random() < 0.5
    ctx.event("nodes-only-content")

    def build(labels, md_of, order):
        h = new_container(kind, weighted)
        for n in order:
            h.add_node(n)
            if md_of[n]:
                for f, v in md_of[n].items():
                    h.set_attr_to_node_metadata(n, f, copy.deepcopy(v))
        return h

    def wit(extra=None):
        return {"kind": kind, "nodes": {repr(n): mds[n] for n in ints}, "weighted": weighted, "extra": extra}

    try:
        a = build(ints, mds, list(ints))
        b = build(ints, mds, list(reversed(ints)))
        strs = [str(n) for n in ints]
        c = build(strs, {str(n): mds[n] for n in ints}, strs)
        ha, hb, hc = hash_hypergraph(a), hash_hypergraph(b), hash_hypergraph(c)
    except Exception as e:
        ctx.check("C07:equal-content-equal-hash", False, f"C07:{kind}:nodes-only:raised:{type(e).__name__}", lambda: wit(repr(e)))
        return
    ctx.check("C07:equal-content-equal-hash", ha == hb, f"C07:{kind}:nodes-only:same-content-different-hash(insertion order)", wit)
    ctx.check("C07:edit-changes-hash", ha != hc, f"C07:{kind}:nodes-only:labels-1-and-'1'-same-hash", wit)
    if kind in ("H", "D"):  # string labels that differ only in unicode composition are different nodes
        try:
            ua = build(["caf\u00e9", "z"], {"caf\u00e9": {}, "z": {}}, ["caf\u00e9", "z"])
            ub = build(["cafe\u0301", "z"], {"cafe\u0301": {}, "z": {}}, ["cafe\u0301", "z"])
            ctx.check("C07:edit-changes-hash", hash_hypergraph(ua) != hash_hypergraph(ub), f"C07:{kind}:nodes-only:labels-differing-in-unicode-composition-same-hash", wit)
        except Exception as e:
            ctx.note("unicode-label-build-raised:" + type(e).__name__)
    n0 = rng.choice(ints)
    mds2 = dict(mds)
    mds2[n0] = dict(mds[n0], extra=1)
    d = build(ints, mds2, list(ints))
    ctx.check("C07:edit-changes-hash", hash_hypergraph(d) != ha, f"C07:{kind}:nodes-only:node-metadata-edit-kept-hash", wit)
    if len(ints) >= 2:
        e = build(ints[:-1], mds, list(ints[:-1]))
        ctx.check("C07:edit-changes-hash", hash_hypergraph(e) != ha, f"C07:{kind}:nodes-only:one-node-fewer-kept-hash", wit)
    ctx.distinct_add(("nodes-only", kind, tuple(ints), repr(mds), weighted))


def many_entries_case(ctx, rng, idx):
    """130-600 nodes and hyperedges carrying metadata with NESTED mutable values.  Hashed, then one nested value is changed in
    place (the metadata dictionaries are the client's own objects, the containers keep them by reference), hashed again: the
    content differs, so must the hash - and it must be the hash of a freshly built object with the new content."""
    from hypergraphx.readwrite.hashing import hash_hypergraph
    from ..history import new_container

    kind = "HDTM"[(idx // 8) % 4]
    n = rng.choice([70, 140, 300])
    weighted = rng.random() < 0.5
    ctx.event(f"many-entries:{kind}")
    labels = list(range(n))

    def key_of(i):
        ns = (i, (i + 1) % n, (i * 7 + 3) % n)
        ns = tuple(sorted(set(ns)))
        if kind == "D":
            return ((ns[0],), tuple(ns[1:]))
        return ns

    def extra(i):
        return {"H": (), "D": (), "T": (i % 5,), "M": ("L%d" % (i % 3),)}[kind]

    def build(edit=None):
        h = new_container(kind, weighted)
        for i in labels:
            md = {"tags": ["a", {"deep": [i]}], "i": i}
            if edit == ("node", i):
                md["tags"][1]["deep"].append("edited")
            h.add_node(i, md)
        for i in range(0, n, 2):
            md = {"tags": ["e", [i]], "w": i}
            if edit == ("edge", i):
                md["tags"][1].append("edited")
            kw = {"weight": 1 + i % 3} if weighted else {}
            h.add_edge(key_of(i), *extra(i), metadata=md, **kw)
        return h

    def wit(x=None):
        return {"kind": kind, "n": n, "weighted": weighted, "extra": x}

    try:
        h = build()
        h0 = hash_hypergraph(h)
        ctx.check("C07:equal-content-equal-hash", hash_hypergraph(build()) == h0, f"C07:{kind}:many-entries:same-content-different-hash", wit)
        i_n = rng.randrange(n)
        (h.get_node_metadata(i_n) if hasattr(h, "get_node_metadata") else h.get_nodes(metadata=True)[i_n])["tags"][1]["deep"].append("edited")
        h1 = hash_hypergraph(h)
        ctx.check("C07:edit-changes-hash", h1 != h0, f"C07:{kind}:many-entries:edit-kept-hash:nested-node-metadata-value-changed-in-place", lambda: wit(i_n))
        ctx.check("C07:equal-content-equal-hash", h1 == hash_hypergraph(build(("node", i_n))), f"C07:{kind}:many-entries:same-content-different-hash(after in-place edit of a nested node metadata value)", lambda: wit(i_n))
        i_e = 2 * rng.randrange(n // 2)
        g = build()
        hash_hypergraph(g)
        g.get_edge_metadata(key_of(i_e), *extra(i_e))["tags"][1].append("edited")
        h2 = hash_hypergraph(g)
        ctx.check("C07:edit-changes-hash", h2 != h0, f"C07:{kind}:many-entries:edit-kept-hash:nested-hyperedge-metadata-value-changed-in-place", lambda: wit(i_e))
        ctx.check("C07:equal-content-equal-hash", h2 == hash_hypergraph(build(("edge", i_e))), f"C07:{kind}:many-entries:same-content-different-hash(after in-place edit of a nested hyperedge metadata value)", lambda: wit(i_e))
    except Exception as e:
        ctx.check("C07:equal-content-equal-hash", False, f"C07:{kind}:many-entries:raised:{type(e).__name__}", lambda: wit(repr(e)))
        return
    ctx.distinct_add(("many-entries", kind, n, weighted))


def run_case(ctx, rng, idx):
    if idx % 12 == 7:
        return nodes_only_case(ctx, rng, idx)
    if idx % 24 == 11 or idx == 3:
        return many_entries_case(ctx, rng, idx)
    kind = "HDTM"[idx % 4]
    huge = kind == "T" and idx % 16 == 2
    if huge:
        ctx.event("content-with-time-stamps-beyond-2**53")
    C, labels, uni = gen_content(rng, kind, huge_times=huge)
    if len(C.edges) < 1:
        return
    K = KEYS[kind]
    base_desc = C.describe()

    def wit(extra=None):
        return {"kind": kind, "content": base_desc, "hgmd": C.hgmd, "extra": extra}

    built = []
    n_hist = rng.randint(4, 8)
    for j in range(n_hist):
        style = {"nodes_first": rng.random() < 0.5, "detours": j > 0 and rng.random() < 0.7, "hg_sorted": rng.random() < 0.5}
        try:
            h = construct(rng, kind, C, labels, style)
            S = observe(h)
        except Exception as e:
            ctx.note(f"construction-raised:{kind}:{type(e).__name__}")
            ctx.exc("construct", e)
            continue
        # the construction must have reached the intended content (else it proves nothing)
        want = C.copy()
        want.hgmd = dict(S.hgmd)  # bookkeeping keys (weighted/type) are whatever the constructor sets...
        for f, v in C.hgmd.items():
            want.hgmd[f] = v
        if getattr(C, "replace_hgmd", False):
            want.hgmd = dict(C.hgmd)
        if typed(S) != typed(want):
            ctx.note(f"construction-missed-content:{kind}")
            continue
        hv, t = hash_pure(ctx, h, kind, lambda: wit({"style": style}))
        built.append((h, hv, t, style))
    if len(built) >= 2:
        h0, hv0, t0, st0 = built[0]
        for h, hv, t, st in built[1:]:
            ctx.check("C07:equal-content-equal-hash", (t == t0) <= (hv == hv0),
                      f"C07:{kind}:same-content-different-hash", lambda: wit({"styles": [st0, st]}))
    if not built:
        return
    # ---- single-element edits -------------------------------------------------------------
    from hypergraphx.readwrite.hashing import hash_hypergraph

    base_h, base_hash, base_t, _ = built[0]
    edits = []
    spare = [x for x in UNIS[uni] if x not in C.nodes]
    if spare:
        edits.append(("add-node", lambda g: g.add_node(spare[0])))
    iso = [n for n in C.nodes if not any(n in K.nodes(k) for k in C.edges)]
    if iso:
        edits.append(("remove-isolated-node", lambda g: g.remove_node(iso[0])))
    k0 = rng.choice(list(C.edges))
    edits.append(("remove-hyperedge", lambda g: _remove(g, kind, k0, rng)))
    for _ in range(5):
        kn = _mk(kind, rng.sample(list(C.nodes), min(len(C.nodes), rng.randint(2, 3))), rng)
        if kn is not None and kn not in C.edges and not (kind == "M" and kn[1] == "tmp"):
            edits.append(("add-hyperedge", lambda g, kn=kn: _add(g, kind, kn, C.edges[k0][0] if C.weighted else None, {}, rng)))
            break
    if C.weighted:
        w0 = C.edges[k0][0]
        edits.append(("change-weight", lambda g: g.set_weight(*lib_args(kind, k0, rng), w0 + type(w0)(1))))
        if isinstance(w0, int):
            edits.append(("change-weight-numeric-type", lambda g: g.set_weight(*lib_args(kind, k0, rng), float(w0))))
    if kind == "T" and (k0[0] + 1, k0[1]) not in C.edges:
        edits.append(("change-time", lambda g: (_remove(g, kind, k0, rng), _add(g, kind, (k0[0] + 1, k0[1]), C.edges[k0][0] if C.weighted else None, copy.deepcopy(C.edges[k0][1]), rng))))
    if kind == "M":
        other = [l for l in LAYERS if (k0[0], l) not in C.edges]
        if other:
            edits.append(("change-layer", lambda g: (_remove(g, kind, k0, rng), _add(g, kind, (k0[0], other[0]), C.edges[k0][0] if C.weighted else None, copy.deepcopy(C.edges[k0][1]), rng))))
    if kind == "D" and (k0[1], k0[0]) not in C.edges:
        edits.append(("swap-direction", lambda g: (_remove(g, kind, k0, rng), _add(g, kind, (k0[1], k0[0]), C.edges[k0][0] if C.weighted else None, copy.deepcopy(C.edges[k0][1]), rng))))
    if C.weighted and isinstance(C.edges[k0][0], float):
        import math

        w0 = C.edges[k0][0]
        edits.append(("change-weight-by-one-ulp", lambda g: g.set_weight(*lib_args(kind, k0, rng), math.nextafter(w0, math.inf))))
        edits.append(("change-weight-by-1e-13", lambda g: g.set_weight(*lib_args(kind, k0, rng), w0 + 1e-13)))
    edits.append(("node-attribute-with-value-None", lambda g: (g.set_attr_to_node_metadata(rng.choice(list(C.nodes)), "checked", None), None)))
    edits.append(("hyperedge-attribute-with-value-None", lambda g: (g.set_attr_to_edge_metadata(*lib_args(kind, k0, rng), "checked", None), None)))
    edits.append(("metadata-float-by-one-ulp", lambda g: (g.set_attr_to_hypergraph_metadata("x", 0.3), None)))
    # two different strings that only differ in unicode composition (precomposed e-acute vs e + combining accent)
    edits.append(("metadata-string-unicode-composition", lambda g: (g.set_attr_to_hypergraph_metadata("name", "cafe\u0301"), None)))
    edits.append(("metadata-int-beyond-2**53", lambda g: (g.set_attr_to_node_metadata(rng.choice(list(C.nodes)), "big", 2**53 + 1), None)))
    if C.weighted and isinstance(C.edges[k0][0], int):
        edits.append(("weight-int-beyond-2**53", lambda g: g.set_weight(*lib_args(kind, k0, rng), 2**53 + 1)))
    if C.weighted:
        edits.append(("reinsert-existing-hyperedge(weight accumulates)", lambda g: _add(g, kind, k0, type(C.edges[k0][0])(1), copy.deepcopy(C.edges[k0][1]), rng)))
    edits.append(("reinsert-existing-hyperedge-with-other-metadata", lambda g: _add(g, kind, k0, None if not C.weighted else type(C.edges[k0][0])(0), {"re": "inserted"}, rng)))
    n0 = rng.choice(list(C.nodes))
    edits.append(("node-metadata-value", lambda g: g.set_attr_to_node_metadata(n0, "a", "CHANGED")))
    edits.append(("hyperedge-metadata-value", lambda g: g.set_attr_to_edge_metadata(*lib_args(kind, k0, rng), "a", "CHANGED")))
    edits.append(("hypergraph-metadata-value", lambda g: g.set_attr_to_hypergraph_metadata("name", "CHANGED")))
    # same items in another order inside a list-valued metadata entry = different content
    def permute_list(md):
        for k_, v_ in md.items():
            if isinstance(v_, list) and len(v_) >= 2 and v_ != v_[::-1]:
                return k_, v_[::-1]
        return None

    for n_ in C.nodes:
        pl = permute_list(C.nodes[n_])
        if pl:
            edits.append(("node-metadata-list-order", lambda g, n_=n_, pl=pl: g.set_attr_to_node_metadata(n_, pl[0], list(pl[1]))))
            break
    for k_ in C.edges:
        pl = permute_list(C.edges[k_][1])
        if pl:
            edits.append(("hyperedge-metadata-list-order", lambda g, k_=k_, pl=pl: g.set_attr_to_edge_metadata(*lib_args(kind, k_, rng), pl[0], list(pl[1]))))
            break
    if isinstance(C.hgmd.get("info"), dict):
        edits.append(("hypergraph-metadata-list-order", lambda g: g.set_attr_to_hypergraph_metadata("info", {"v": [2, 1]})))
    for name, edit in edits:
        try:
            g = construct(rng, kind, C, labels, {"nodes_first": True, "detours": False, "hg_sorted": True})
            Sg0 = typed(observe(g))
            if rng.random() < 0.6:
                hash_hypergraph(g)  # the object has been hashed before it is edited: a memo must not survive the edit
            if name == "metadata-float-by-one-ulp":
                g.set_attr_to_hypergraph_metadata("x", 0.1 + 0.2)  # 0.30000000000000004 vs 0.3 below
                Sg0 = typed(observe(g))
                base_cmp = hash_hypergraph(g)
            if name == "metadata-string-unicode-composition":
                g.set_attr_to_hypergraph_metadata("name", "caf\u00e9")  # precomposed; the edit below stores the decomposed spelling
                Sg0 = typed(observe(g))
                base_cmp = hash_hypergraph(g)
            if name == "metadata-int-beyond-2**53":
                for n_ in C.nodes:
                    g.set_attr_to_node_metadata(n_, "big", 2**53)  # 2**53 everywhere, then one of them becomes 2**53 + 1
                Sg0 = typed(observe(g))
                base_cmp = hash_hypergraph(g)
            if name == "weight-int-beyond-2**53":
                g.set_weight(*lib_args(kind, k0, rng), 2**53)
                Sg0 = typed(observe(g))
                base_cmp = hash_hypergraph(g)
            edit(g)
            Sg = observe(g)
        except Exception as e:
            ctx.note(f"edit-raised:{kind}:{name}:{type(e).__name__}")
            continue
        if name in ("metadata-float-by-one-ulp", "metadata-int-beyond-2**53", "weight-int-beyond-2**53", "metadata-string-unicode-composition"):
            hv, t = hash_pure(ctx, g, kind, lambda: wit({"edit": name}))
            ctx.check("C07:edit-changes-hash", hv != base_cmp, f"C07:{kind}:edit-kept-hash:{name}", lambda: wit({"edit": name}))
            ctx.event("edit:" + name)
            continue
        if typed(Sg) == Sg0 or Sg0 != base_t[1]:
            ctx.note(f"edit-was-noop-or-base-missed:{name}")
            continue
        hv, t = hash_pure(ctx, g, kind, lambda: wit({"edit": name}))
        ctx.check("C07:edit-changes-hash", hv != base_hash, f"C07:{kind}:edit-kept-hash:{name}", lambda: wit({"edit": name}))
        ctx.event("edit:" + name)
    # flipped weightedness with all weights 1 (int)
    if all(v[0] == 1 and isinstance(v[0], int) for v in C.edges.values()):
        C2 = C.copy()
        C2.replace_hgmd = getattr(C, "replace_hgmd", False)
        C2.weighted = not C.weighted
        try:
            g = construct(rng, kind, C2, labels, {"nodes_first": True, "detours": False, "hg_sorted": True})
            hv, t = hash_pure(ctx, g, kind, lambda: wit({"edit": "flip-weightedness"}))
            if t != base_t:
                ctx.check("C07:edit-changes-hash", hv != base_hash, f"C07:{kind}:edit-kept-hash:flip-weightedness", lambda: wit({"edit": "flip"}))
                ctx.event("edit:flip-weightedness")
        except Exception as e:
            ctx.note(f"edit-raised:{kind}:flip:{type(e).__name__}")
    if len(C.edges) >= 2 and len(built) >= 3:
        ctx.distinct_add((kind, base_t[1]))
    if idx % 60 < 4:
        ctx.sample({"kind": kind, "content": base_desc, "constructions": len(built), "edits": [n for n, _ in edits]})
