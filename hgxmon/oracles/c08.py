"""C08: degrees and connected components against their combinatorial definitions.

Postcondition oracles on measures.degree.* / utils.cc.* and the container methods, evaluated
for no filter and every order and every size from 0 to max+1."""
from collections import Counter

from .. import history
from ..battery import call, _Raised
from ..models import KEYS
from ..observe import npize
from ..observe import observe, fresh
from ..refs import components

N_RANDOM = {"quick": 1000, "thorough": 40000}
N_EXH = 2 ** 15  # every hypergraph on 4 fixed nodes (all 32768 sets of non-empty hyperedges), thorough tier only
TIERS = {"quick": N_RANDOM["quick"], "thorough": N_RANDOM["thorough"] + N_EXH}
EXHAUSTIVE = {"quick": False, "thorough": True}
WATCHDOG_S = {"quick": 900, "thorough": 7200}
RULE = ("one case = one generated container (3 of 4 cases a Hypergraph on 1-9 nodes with hyperedge sizes 1-5, forced isolated "
        "nodes and singleton hyperedges, all label universes; every 4th case the end state of a D/T/M history, degrees only) "
        "x every filter (none, size 0..max+1, order -1..max) x every node, through module functions and methods. "
        "non-trivial = >=2 hyperedges and >=2 distinct sizes or an isolated node; distinct = by abstract state. The thorough "
        "tier additionally enumerates EVERY hypergraph on the 4 nodes {10, 20, 40, 41} (all 2^15 sets of non-empty hyperedges; "
        "exhaustive for that sub-space)")
DECIDING = ["C08:degree", "C08:components"]
ASSUMPTIONS = ["reference components by union-find over the filtered hyperedges of size >= 2 (hgxmon/refs.py)"]


class NullCtx:
    def __getattr__(self, k):
        return lambda *a, **kw: True


def gen_hypergraph(rng, allow_tuple=False):
    import hypergraphx as hgx

    uni = rng.choice(list(history.UNIVERSES))
    labels = list(history.UNIVERSES[uni])
    if allow_tuple and rng.random() < 0.08:
        uni = "tuple"
        labels = list(history.EXTRA_UNIVERSES[uni])
    rng.shuffle(labels)
    labels = labels[: rng.randint(1, 8)]
    h = hgx.Hypergraph(weighted=rng.random() < 0.3)
    style = rng.choice(["sparse", "dense", "forest", "uniform"])
    n_e = {"sparse": rng.randint(0, 3), "dense": rng.randint(4, 12), "forest": rng.randint(1, 5), "uniform": rng.randint(1, 6)}[style]
    usz = rng.randint(1, 4)
    for _ in range(n_e):
        s = usz if style == "uniform" else rng.choice([1, 2, 2, 3, 3, 4, 5])
        s = min(s, len(labels))
        pool = labels if style != "forest" else labels[: max(1, len(labels) // 2)] if rng.random() < 0.5 else labels[len(labels) // 2:] or labels
        s = min(s, len(pool))
        h.add_edge(tuple(fresh(x) for x in rng.sample(pool, s)))  # label objects are created anew per hyperedge
    for n in labels:
        if rng.random() < 0.4:
            h.add_node(n)
    if not h.get_nodes():
        h.add_node(labels[0])
    if rng.random() < 0.35:  # calls the library refuses, made before measuring (a refused call must leave no trace)
        from ..mutate import refused_calls

        refused_calls(rng, h)
    return h, uni


def run_case(ctx, rng, idx):
    from hypergraphx.measures import degree as dm
    from hypergraphx.utils import cc

    if idx >= N_RANDOM[ctx.tier]:
        import itertools
        import hypergraphx as hgx

        mask = idx - N_RANDOM[ctx.tier]
        nodes = [10, 20, 40, 41]
        poss = [c for r in range(1, 5) for c in itertools.combinations(nodes, r)]
        h = hgx.Hypergraph()
        h.add_nodes(nodes)
        for i, e in enumerate(poss):
            if mask >> i & 1:
                h.add_edge(e)
        ctx.event("exhaustive-4-node-hypergraph")
        evaluate(ctx, rng, idx, h, "H", ":exhaustive")
        return
    if idx == 1 or (ctx.tier == "thorough" and idx % 500 == 9):
        # scale: ~100 nodes, a few hundred hyperedges, several components (sampled nodes and filters)
        import hypergraphx as hgx

        n = rng.randint(60, 120)
        nodes = [5 * i - 100 for i in range(n)]
        h = hgx.Hypergraph()
        h.add_nodes(nodes)
        blocks = [nodes[i::rng.randint(2, 4)] for i in range(2)]
        for _ in range(rng.randint(150, 400)):
            pool = rng.choice(blocks + [nodes]) if rng.random() < 0.9 else nodes
            h.add_edge(tuple(rng.sample(pool, min(len(pool), rng.choice([1, 2, 2, 3, 4, 6])))))
        ctx.event("big-hypergraph")
        evaluate(ctx, rng, idx, h, "H", ":big", sample=12)
        return
    if idx == 6 or (ctx.tier == "thorough" and idx % 5000 == 17):
        # one hyperedge over 1500 nodes with a pendant node hanging off a member that is expanded late: a traversal visits
        # each member's 1499 neighbours (more than a million steps) before the pendant node comes out
        import hypergraphx as hgx

        ctx.event("1500-node-block-with-a-pendant-node")
        m_ = 1500
        hb = hgx.Hypergraph([tuple(range(m_)), (m_ - 1, 5000), (7000, 7001)])
        hb.add_node(9000)
        for name, got, exp in (("num_connected_components", call(hb.num_connected_components), 3),
                               ("largest_component_size", call(hb.largest_component_size), m_ + 1),
                               ("is_connected", call(hb.is_connected), False),
                               ("node_connected_component(0)", call(lambda: len(hb.node_connected_component(0))), m_ + 1),
                               ("node_connected_component(5000)", call(lambda: len(hb.node_connected_component(5000))), m_ + 1),
                               ("isolated_nodes", call(lambda: sorted(hb.isolated_nodes())), [9000]),
                               ("degree(block member)", call(hb.degree, 3), 1), ("degree(attachment)", call(hb.degree, m_ - 1), 2),
                               ("num_connected_components(size=1500)", call(hb.num_connected_components, size=m_), 5),
                               ("largest_component_size(order=1499)", call(hb.largest_component_size, order=m_ - 1), m_),
                               ("node_connected_component(0, size=1500)", call(lambda: len(hb.node_connected_component(0, size=m_))), m_),
                               ("degree(block member, size=1500)", call(hb.degree, 3, size=m_), 1),
                               ("num_connected_components(size=2)", call(hb.num_connected_components, size=2), m_ + 2)):
            ctx.check("C08:components", not isinstance(got, _Raised) and got == exp, f"C08:{name}:1500-node-block", lambda: {"query": name, "got": repr(got)[:200], "expected": exp})
        # filter values that come out of NARROW NumPy arrays, at the top of their range (order 127 as int8, order 255 / size 255
        # as uint8): an order / size is a number, whatever its storage type
        import numpy as np
        from hypergraphx.measures import degree as dm2

        big_e = {128: tuple(range(10000, 10128)), 256: tuple(range(20000, 20256)), 255: tuple(range(30000, 30255))}
        hn = hgx.Hypergraph(list(big_e.values()) + [(10000, 20000), (10001, 30000, 5)])
        dn = hgx.DirectedHypergraph([(big_e[128][:64], big_e[128][64:]), (big_e[256][:100], big_e[256][100:]), ((1,), (2, 10000))])
        ctx.event("filters-as-narrow-numpy-integers-at-their-maximum")
        for obj, oname in ((hn, "H"), (dn, "D")):
            for kw, size in (({"order": np.int8(127)}, 128), ({"order": np.uint8(255)}, 256), ({"size": np.uint8(255)}, 255), ({"size": np.int16(256)}, 256), ({"order": np.int64(127)}, 128)):
                es_ = [e for e in obj.get_edges()]
                flat = [(tuple(e[0]) + tuple(e[1])) if oname == "D" else tuple(e) for e in es_]
                sel = [e for e in flat if len(e) == size]
                for node in (10000, 20000, 30000, 5):
                    if node not in obj.get_nodes():
                        continue
                    exp = sum(1 for e in sel if node in e)
                    got = call(dm2.degree, obj, node, **kw)
                    ctx.check("C08:degree", not isinstance(got, _Raised) and got == exp, f"C08:{oname}:degree(function):filtered:narrow-numpy-integer", lambda: {"filter": repr(kw), "node": node, "got": repr(got), "expected": exp})
                    got = call(obj.degree, node, **kw)
                    ctx.check("C08:degree", not isinstance(got, _Raised) and got == exp, f"C08:{oname}:degree(method):filtered:narrow-numpy-integer", lambda: {"filter": repr(kw), "node": node, "got": repr(got), "expected": exp})
                seq = call(dm2.degree_sequence, obj, **kw)
                ctx.check("C08:degree", not isinstance(seq, _Raised) and sum(seq.values()) == sum(len(e) for e in sel), f"C08:{oname}:degree_sequence:filtered:narrow-numpy-integer", lambda: {"filter": repr(kw), "sum": repr(seq)[:80] if isinstance(seq, _Raised) else sum(seq.values()), "expected": sum(len(e) for e in sel)})
        ctx.distinct_add(("block", m_))
        return
    if idx == 7 or (ctx.tier == "thorough" and idx % 5000 == 19):
        many_nodes_case(ctx, rng, idx)
        return
    if idx in (2, 5) or (ctx.tier == "thorough" and idx % 500 == 13):
        from ..gen import core_periphery

        ctx.event("core-periphery-hypergraph")
        evaluate(ctx, rng, idx, core_periphery(rng, weighted=rng.random() < 0.3), "H", ":core-periphery", sample=12)
        return
    if idx % 4 == 3:
        kind = "HDTM"[(idx // 4) % 4]
        cfg = history.Cfg(rng, kind)
        cfg.invalid_rate = 0.1  # refused calls are part of the build: they must leave no trace in what is measured
        cfg.avoid = {"copy", "clear"}
        try:
            live, _ = history.run_history(history.BuildCtx(ctx, "C08"), rng, cfg, battery_every=0)
        except Exception as e:
            ctx.note("build-failed:" + type(e).__name__)
            return
        h = live[0][0]
        uni = cfg.uni_name
    else:
        kind = "H"
        h, uni = gen_hypergraph(rng, allow_tuple=True)
    tw = None
    if kind == "H" and idx % 3 == 0:
        from ..mutate import twin

        tw = twin(rng, h)  # built BEFORE h is measured; no library call changes anything from here to the last query on it
    evaluate(ctx, rng, idx, h, kind, "")
    if tw is not None:
        # two live objects over the same labels, equal in every count and degree, queried in turn with no edit in between
        ctx.event("re-evaluated-on-a-live-twin(same labels, degrees and sizes; other hyperedges)")
        evaluate(ctx, rng, idx, tw, kind, ":live-twin")
        ctx.event("re-evaluated-after-the-twin-was-queried")
        evaluate(ctx, rng, idx, h, kind, ":after-its-twin-was-queried")
        del tw
    if kind == "H" and idx % 10 == 4:
        short_lived_objects(ctx, rng, h)
    # second evaluation on the SAME object after an in-place edit that keeps the node and hyperedge counts
    if kind == "H":
        from ..mutate import same_count_edit, degree_preserving_swap

        if rng.random() < 0.4 and degree_preserving_swap(rng, h):
            ctx.event("re-evaluated-after-a-degree-preserving-double-swap")
            evaluate(ctx, rng, idx, h, kind, ":after-double-swap")
        if same_count_edit(rng, h):
            ctx.event("re-evaluated-after-in-place-edit")
            evaluate(ctx, rng, idx, h, kind, ":after-in-place-edit")
        lonely = [n for n in h.get_nodes() if not h.get_incident_edges(n)]
        spare = [x for x in (history.UNIVERSES.get(uni) or history.EXTRA_UNIVERSES.get(uni) or []) if x not in h.get_nodes()]
        if lonely and spare and rng.random() < 0.5:
            # two edits with NO query in between that leave every count as it was: one edge-less node comes, another goes
            h.add_node(spare[0])
            h.remove_node(rng.choice(lonely))
            ctx.event("re-evaluated-after-swapping-an-edgeless-node")
            evaluate(ctx, rng, idx, h, kind, ":after-node-swap")
            lonely = [n for n in h.get_nodes() if not h.get_incident_edges(n)]
        if lonely:  # removing a node that has no hyperedge at all goes through no edge-removal path
            h.remove_node(rng.choice(lonely))
            if h.get_nodes():
                ctx.event("re-evaluated-after-removing-an-edgeless-node")
                evaluate(ctx, rng, idx, h, kind, ":after-removing-edgeless-node")
        if h.get_nodes() and rng.random() < 0.3:  # the same hypergraph reached through other calls (copy of a copy / clear() and re-insertion)
            from ..mutate import second_order

            lab, g2 = second_order(rng, h)
            ctx.event("re-evaluated-on-" + lab)
            evaluate(ctx, rng, idx, g2, kind, ":" + lab)


def many_nodes_case(ctx, rng, idx):
    """Thousands of nodes, NON-uniform (a chain of triples bridged by a few pairs), every filter form: the component and degree
    queries against union-find over the selected hyperedges.  (An implementation may switch algorithm above some node count;
    the quick tier sits at 5200 nodes, the thorough tier walks 4100 ... 16500.)"""
    import hypergraphx as hgx
    from hypergraphx.utils import cc
    from hypergraphx.measures import degree as dm

    n = 5200 if idx == 7 else [4100, 6000, 8200, 12000, 16500][(idx // 5000) % 5]  # (the library's component search is quadratic in the node count)
    ctx.event(f"many-nodes:{n}")
    edges = [(i, i + 1, i + 2) for i in range(0, n - 2, 3)] + [(i + 2, i + 3) for i in range(0, n - 3, 6)] + [(0, n - 1), (5, n - 2), (n, n + 1), (n + 2, n + 3, n + 4, n + 5)]
    h = hgx.Hypergraph(edges)
    h.add_node(n + 10)
    nodes = list(h.get_nodes())
    ctx.check("C08:degree", len(nodes) >= n, "C08:oracle-self-check:many-nodes", lambda: {"nodes": len(nodes)})
    probes = rng.sample(nodes, 6) + [0, n + 10]
    for f in (None, ("size", 2), ("size", 3), ("order", 1), ("order", 2), ("size", 4), ("order", 0)):
        kw = {} if f is None else {f[0]: f[1]}
        size = None if f is None else (f[1] if f[0] == "size" else f[1] + 1)
        sel = [e for e in edges if size is None or len(e) == size]
        ref = components(nodes, sel)
        refset = {frozenset(c) for c in ref}
        comp_of = {x: frozenset(c) for c in ref for x in c}
        big = max(len(c) for c in ref)

        def wit(extra=None):
            return {"nodes": len(nodes), "filter": kw, "extra": repr(extra)[:300]}

        for name, fn in (("method", h.connected_components), ("function", lambda **k: cc.connected_components(h, **k))):
            got = call(fn, **kw)
            ok = not isinstance(got, _Raised) and len(got) == len(refset) and {frozenset(c) for c in got} == refset
            ctx.check("C08:components", ok, f"C08:connected_components({name}):many-nodes" + (":filtered" if f else ""), lambda: wit((len(got) if not isinstance(got, _Raised) else got, len(ref))))
        for name, got, exp in (("num_connected_components", call(h.num_connected_components, **kw), len(ref)),
                               ("num_connected_components(function)", call(cc.num_connected_components, h, **kw), len(ref)),
                               ("is_connected", call(h.is_connected, **kw), len(ref) == 1),
                               ("largest_component_size", call(h.largest_component_size, **kw), big),
                               ("largest_component", call(lambda: len(h.largest_component(**kw))), big),
                               ("isolated_nodes", call(lambda: Counter(h.isolated_nodes(**kw))), Counter(x for x in nodes if len(comp_of[x]) == 1))):
            ctx.check("C08:components", not isinstance(got, _Raised) and got == exp, f"C08:{name}:many-nodes" + (":filtered" if f else ""), lambda: wit((name, repr(got)[:100], repr(exp)[:100])))
        deg = {x: sum(1 for e in sel if x in e) for x in probes}
        for x in probes:
            got = call(h.node_connected_component, x, **kw)
            ctx.check("C08:components", not isinstance(got, _Raised) and frozenset(got) == comp_of[x], f"C08:node_connected_component:many-nodes" + (":filtered" if f else ""), lambda: wit((x, len(got) if not isinstance(got, _Raised) else got)))
            got = call(h.is_isolated, x, **kw)
            ctx.check("C08:components", got == (len(comp_of[x]) == 1), f"C08:is_isolated:many-nodes" + (":filtered" if f else ""), lambda: wit((x, got)))
            got = call(dm.degree, h, x, **kw)
            ctx.check("C08:degree", got == deg[x], f"C08:H:degree:many-nodes" + (":filtered" if f else ""), lambda: wit((x, got, deg[x])))
        seq = call(dm.degree_sequence, h, **kw)
        ctx.check("C08:degree", not isinstance(seq, _Raised) and all(seq.get(x) == deg[x] for x in probes) and sum(seq.values()) == sum(len(e) for e in sel),
                  "C08:H:degree_sequence:many-nodes" + (":filtered" if f else ""), lambda: wit())
    # one long path, its links inserted in ascending, descending and shuffled order: the partition does not depend on the order
    # in which the hyperedges arrived (a structure that is built incrementally - a forest, a frontier - sees three different
    # histories here; 3000 nodes is beyond the default recursion limit)
    m_ = 3000 if idx == 7 else 6000
    links = [(i - 1, i) for i in range(1, m_)]
    for oname, order in (("ascending", links), ("descending", links[::-1]), ("shuffled", rng.sample(links, len(links)))):
        hp = hgx.Hypergraph(order + [(m_ + 5, m_ + 6, m_ + 7)])
        hp.add_node(m_ + 20)
        ctx.event("long-path:" + oname)
        for kw, exp_n, exp_big in (({}, 3, m_), ({"size": 2}, 5, m_), ({"size": 3}, m_ + 2, 3)):
            got = call(hp.connected_components, **kw)
            ok = not isinstance(got, _Raised) and len(got) == exp_n and max(len(c) for c in got) == exp_big and sum(len(c) for c in got) == m_ + 4
            ctx.check("C08:components", ok, "C08:connected_components(method):long-path:" + oname, lambda: {"order": oname, "filter": kw, "got": repr(got)[:200] if isinstance(got, _Raised) else (len(got), max(len(c) for c in got)), "expected": (exp_n, exp_big)})
            for name, g_, e_ in (("num_connected_components", call(hp.num_connected_components, **kw), exp_n), ("largest_component_size", call(hp.largest_component_size, **kw), exp_big),
                                 ("is_connected", call(hp.is_connected, **kw), False), ("node_connected_component", call(lambda: len(hp.node_connected_component(0, **kw))), m_ if kw.get("size") != 3 else 1)):
                ctx.check("C08:components", not isinstance(g_, _Raised) and g_ == e_, f"C08:{name}:long-path:" + oname, lambda: {"order": oname, "filter": kw, "got": repr(g_)[:200], "expected": e_})
    ctx.distinct_add(("many-nodes", n))


def short_lived_objects(ctx, rng, h):
    """Objects that live for one query and are dropped: CPython hands the next object of the same type the address of the one
    just freed, so anything remembered per id(object) answers for a dead hypergraph.  Alternates h's content with its twin's
    (same node list, same number of insertions and hyperedges), each time on a brand-new object, each judged by itself."""
    from hypergraphx.measures import degree as dm
    from ..mutate import rebuilt, twin

    t = twin(rng, h)
    if t is None:
        return
    ctx.event("short-lived-objects-alternating-two-contents")
    contents = []
    for src in (h, t):
        nodes = list(src.get_nodes())
        edges = list(src.get_edges())
        contents.append((nodes, edges))
    del t
    sizes = sorted({len(e) for e in contents[0][1]})
    for rnd in range(6):
        nodes, edges = contents[rnd % 2]
        g = type(h)(weighted=False)
        g.add_nodes(list(nodes))
        g.add_edges(list(edges))
        for s_ in [None] + sizes[:2]:
            sel = [e for e in edges if s_ is None or len(e) == s_]
            deg = {n: sum(1 for e in sel if n in e) for n in nodes}
            kw = {} if s_ is None else {"order": s_ - 1}
            got = call(dm.degree_sequence, g, **kw)
            ctx.check("C08:degree", got == deg, "C08:H:degree_sequence:short-lived-object", lambda: {"round": rnd, "filter": kw, "edges": repr(edges)[:300], "got": repr(got)[:300], "expected": repr(deg)[:300]})
            got = call(dm.degree_distribution, g, **kw)
            ctx.check("C08:degree", got == dict(Counter(deg.values())), "C08:H:degree_distribution:short-lived-object", lambda: {"round": rnd, "filter": kw, "edges": repr(edges)[:300], "got": repr(got)[:300]})
        del g


def evaluate(ctx, rng, idx, h, kind, phase, sample=None):
    from hypergraphx.measures import degree as dm
    from hypergraphx.utils import cc

    K = KEYS[kind]
    S = observe(h)
    sizes = [K.size(k) for k in S.edges]
    mx = max(sizes) if sizes else 0
    filters = [None] + [("size", s) for s in range(0, mx + 2)] + [("order", s - 1) for s in range(0, mx + 2)]
    all_nodes = list(S.nodes)
    probe_nodes = set(all_nodes if sample is None else rng.sample(all_nodes, min(sample, len(all_nodes))))
    if sample is not None:
        filters = [None] + rng.sample(filters[1:], 4)

    def wit(extra=None):
        return {"kind": kind, "phase": phase, "object": S.describe() if len(S.nodes) <= 20 else {"nodes": len(S.nodes), "edges": len(S.edges)}, "extra": repr(extra)[:500]}

    for f in filters:
        kw = {} if f is None else {f[0]: npize(rng, f[1])}
        size = None if f is None else (f[1] if f[0] == "size" else f[1] + 1)
        sel = [k for k in S.edges if size is None or K.size(k) == size]
        # ---------------- degrees -------------------------------------------------------
        deg = {n: sum(1 for k in sel if n in K.nodes(k)) for n in S.nodes}
        ctx.check("C08:degree", sum(deg.values()) == sum(K.size(k) for k in sel), "C08:oracle-self-check", wit)
        for n in probe_nodes:
            g1 = call(h.degree, n, **kw)
            g2 = call(dm.degree, h, n, **kw)
            ctx.check("C08:degree", g1 == deg[n], f"C08:{kind}:degree(method)" + (":filtered" if f else ""), lambda: wit((n, kw, g1, deg[n])))
            ctx.check("C08:degree", g2 == deg[n], f"C08:{kind}:degree(function)" + (":filtered" if f else ""), lambda: wit((n, kw, g2, deg[n])))
        s1 = call(h.degree_sequence, **kw)
        s2 = call(dm.degree_sequence, h, **kw)
        ctx.check("C08:degree", s1 == deg and s2 == deg, f"C08:{kind}:degree_sequence" + (":filtered" if f else ""), lambda: wit((kw, s1, deg)))
        hist = dict(Counter(deg.values()))
        d2 = call(dm.degree_distribution, h, **kw)
        ctx.check("C08:degree", d2 == hist, f"C08:{kind}:degree_distribution" + (":filtered" if f else ""), lambda: wit((kw, d2, hist)))
        if hasattr(h, "degree_distribution"):
            d1 = call(h.degree_distribution, **kw)
            ctx.check("C08:degree", d1 == hist, f"C08:{kind}:degree_distribution(method)", lambda: wit((kw, d1, hist)))
        if kind != "H":
            continue
        if not S.nodes:
            ctx.note("node-less hypergraph: components not judged")
            continue
        # ---------------- components (Hypergraph only) ----------------------------------
        ref = components(S.nodes, sel)
        refset = {frozenset(c) for c in ref}
        comp_of = {n: frozenset(c) for c in ref for n in c}
        for name, fn in (("method", h.connected_components), ("function", lambda **k: cc.connected_components(h, **k))):
            got = call(fn, **kw)
            ok = not isinstance(got, _Raised) and len(got) == len(refset) and {frozenset(c) for c in got} == refset \
                and sum(len(c) for c in got) == len(S.nodes)
            ctx.check("C08:components", ok, f"C08:connected_components({name})" + (":filtered" if f else ""), lambda: wit((kw, got, ref)))
        for name, fn in (("method", h.num_connected_components), ("function", lambda **k: cc.num_connected_components(h, **k))):
            got = call(fn, **kw)
            ctx.check("C08:components", got == len(ref), f"C08:num_connected_components({name})" + (":filtered" if f else ""), lambda: wit((kw, got, len(ref))))
        for name, fn in (("method", h.is_connected), ("function", lambda **k: cc.is_connected(h, **k))):
            got = call(fn, **kw)
            ctx.check("C08:components", got == (len(ref) == 1), f"C08:is_connected({name})" + (":filtered" if f else ""), lambda: wit((kw, got, len(ref))))
        big = max(len(c) for c in ref)
        for name, fn in (("method", h.largest_component), ("function", lambda **k: cc.largest_component(h, **k))):
            got = call(fn, **kw)
            ok = not isinstance(got, _Raised) and frozenset(got) in refset and len(got) == big
            ctx.check("C08:components", ok, f"C08:largest_component({name})" + (":filtered" if f else ""), lambda: wit((kw, got, big)))
        for name, fn in (("method", h.largest_component_size), ("function", lambda **k: cc.largest_component_size(h, **k))):
            got = call(fn, **kw)
            ctx.check("C08:components", got == big, f"C08:largest_component_size({name})" + (":filtered" if f else ""), lambda: wit((kw, got, big)))
        for n in probe_nodes:
            for name, fn in (("method", h.node_connected_component), ("function", lambda x, **k: cc.node_connected_component(h, x, **k))):
                got = call(fn, n, **kw)
                ok = not isinstance(got, _Raised) and frozenset(got) == comp_of[n] and len(got) == len(comp_of[n])
                ctx.check("C08:components", ok, f"C08:node_connected_component({name})" + (":filtered" if f else ""), lambda: wit((n, kw, got, comp_of[n])))
            iso = len(comp_of[n]) == 1
            for name, fn in (("method", h.is_isolated), ("function", lambda x, **k: cc.is_isolated(h, x, **k))):
                got = call(fn, n, **kw)
                ctx.check("C08:components", got == iso, f"C08:is_isolated({name})" + (":filtered" if f else ""), lambda: wit((n, kw, got, iso)))
        if f is not None and rng.random() < 0.25:
            # the filter handed over POSITIONALLY, in each callable's documented parameter order: the module functions take
            # (hg[, node], order, size), the degree methods (node, order, size), the component methods ([node,] size, order)
            o_, s_ = (f[1], None) if f[0] == "order" else (None, f[1])
            n0 = rng.choice(all_nodes)
            iso0 = len(comp_of[n0]) == 1
            for name, got, exp in (
                    ("degree(function)", call(dm.degree, h, n0, o_, s_), deg[n0]),
                    ("degree(method)", call(h.degree, n0, o_, s_), deg[n0]),
                    ("degree_sequence(function)", call(dm.degree_sequence, h, o_, s_), deg),
                    ("degree_sequence(method)", call(h.degree_sequence, o_, s_), deg),
                    ("degree_distribution(function)", call(dm.degree_distribution, h, o_, s_), hist),
                    ("num_connected_components(function)", call(cc.num_connected_components, h, o_, s_), len(ref)),
                    ("num_connected_components(method)", call(h.num_connected_components, s_, o_), len(ref)),
                    ("is_connected(function)", call(cc.is_connected, h, o_, s_), len(ref) == 1),
                    ("is_connected(method)", call(h.is_connected, s_, o_), len(ref) == 1),
                    ("largest_component_size(function)", call(cc.largest_component_size, h, o_, s_), big),
                    ("largest_component_size(method)", call(h.largest_component_size, s_, o_), big),
                    ("is_isolated(function)", call(cc.is_isolated, h, n0, o_, s_), iso0),
                    ("is_isolated(method)", call(h.is_isolated, n0, s_, o_), iso0)):
                ctx.check("C08:positional-filter", not isinstance(got, _Raised) and got == exp, f"C08:{name}:positional-filter", lambda: wit((name, f, got, exp)))
        expi = Counter(n for n in S.nodes if len(comp_of[n]) == 1)
        for name, fn in (("method", h.isolated_nodes), ("function", lambda **k: cc.isolated_nodes(h, **k))):
            got = call(fn, **kw)
            ctx.check("C08:components", not isinstance(got, _Raised) and Counter(got) == expi, f"C08:isolated_nodes({name})" + (":filtered" if f else ""), lambda: wit((kw, got, expi)))
    # both order and size -> rejected
    if kind == "H":
        for fn in (h.connected_components, h.is_connected, h.num_connected_components, h.largest_component):
            if not isinstance(call(fn, order=1, size=2), _Raised):
                ctx.note("observation:order and size both given accepted")  # not claimed by the property
    iso_any = any(not any(n in K.nodes(k) and K.size(k) > 1 for k in S.edges) for n in S.nodes)
    if len(S.edges) >= 2 and (len(set(sizes)) >= 2 or iso_any):
        ctx.distinct_add((kind, S.freeze()))
    if idx % 100 < 2:
        ctx.sample({"kind": kind, "object": S.describe()})
