"""C09: matrix / tensor representations against their definitions under the returned mapping."""
import itertools

import numpy as np

from .. import history
from ..battery import call, _Raised
from ..models import KEYS
from ..observe import npize, observe

TIERS = {"quick": 600, "thorough": 12000}
WATCHDOG_S = {"quick": 900, "thorough": 7200}
RULE = ("case kinds by index mod 8: 0-4 random Hypergraph (non-contiguous / string / numpy / big labels, isolated nodes, "
        "weighted or not; every order 0..max+1 present or absent, keep_isolated_nodes both); 5 dense stress family (all "
        "supersets of one pair on 8-10 nodes: 64-256 hyperedges through one pair); 6 uniform hypergraph on 0..N-1 (tensor); "
        "7 TemporalHypergraph (adjacency at each time vs snapshot). non-trivial = >=2 hyperedges; distinct = by abstract state")
DECIDING = ["C09:no-mapping-path", "C09:mapping", "C09:incidence", "C09:adjacency", "C09:per-order", "C09:laplacian", "C09:dual", "C09:tensor", "C09:temporal"]
ASSUMPTIONS = ["dense reference matrices are built from the public observation by definition; integer matrices compared exactly, weighted ones with rtol 1e-12"]


def dense(m):
    return np.asarray(m.toarray() if hasattr(m, "toarray") else m)


def check_mapping(ctx, mapping, nodes, rows, what, wit):
    ok = (isinstance(mapping, dict) and len(mapping) == len(nodes) and rows == len(nodes)
          and set(int(i) for i in mapping.keys()) == set(range(len(nodes)))
          and len(set(mapping.values())) == len(nodes) and set(mapping.values()) == set(nodes))
    ctx.check("C09:mapping", ok, f"C09:mapping-not-a-bijection:{what}",
              lambda: dict(wit(), mapping=repr(mapping)[:400], rows=rows, nodes=repr(sorted(nodes, key=repr))[:300]))
    return ok


def gen_hypergraph(rng, weighted=None):
    import hypergraphx as hgx

    uni = rng.choice(["small", "gaps", "bigneg", "str", "npint", "gaps", "str", "float", "intfloat", "hashy"])
    labels = list(history.UNIVERSES[uni])
    rng.shuffle(labels)
    labels = labels[: rng.randint(2, 8)]
    weighted = rng.random() < 0.4 if weighted is None else weighted
    h = hgx.Hypergraph(weighted=weighted)
    for _ in range(rng.randint(1, 10)):
        s = min(rng.choice([1, 2, 2, 3, 3, 4, 5]), len(labels))
        e = tuple(rng.sample(labels, s))
        if h.check_edge(e):
            continue
        h.add_edge(e, weight=rng.choice([0.5, 1, 2, 3, 7]) if weighted else None)
    for n in labels:
        if rng.random() < 0.4:
            h.add_node(n)
    if rng.random() < 0.35:  # calls the library refuses, made before measuring (a refused call must leave no trace)
        from ..mutate import refused_calls

        refused_calls(rng, h)
    return h, uni


def sparse_scale_case(ctx, rng, idx, many_edges):
    """Far more nodes (70 000, almost all isolated) or hyperedges (100 040) than any index type narrower than 32 bits can
    address; judged through the sparse structure (sets of (row, column) positions), never densified."""
    import hypergraphx as hgx
    from hypergraphx import linalg as la

    if many_edges:
        ctx.event("100040-hyperedges")
        n = 450
        nodes = [3 * i + 1 for i in range(n)]
        edges = []
        for i in range(n):  # every node pair at distance 1..223 on a ring: pair counts stay at 1
            for d in range(1, 224):
                if len(edges) < 100040:
                    edges.append(tuple(sorted((nodes[i], nodes[(i + d) % n]))))
        edges = list(dict.fromkeys(edges))
    else:
        ctx.event("70000-nodes")
        n = 70000
        nodes = [2 * i + 5 for i in range(n)]
        edges = [(nodes[0], nodes[65535], nodes[65536]), (nodes[65536], nodes[69999]), (nodes[1], nodes[65537], nodes[69998], nodes[3]), (nodes[69999], nodes[2])]
    h = hgx.Hypergraph(edges)
    h.add_nodes(nodes)
    listed = [tuple(e) for e in h.get_edges()]

    def wit(x=None):
        return {"nodes": n, "hyperedges": len(listed), "extra": repr(x)[:300]}

    r = call(la.binary_incidence_matrix, h, return_mapping=True)
    if isinstance(r, _Raised):
        ctx.check("C09:incidence", False, f"C09:binary_incidence_matrix:raised:{type(r.e).__name__}", lambda: wit(r))
        return
    B, mp = r
    inv = {v: k for k, v in mp.items()}
    ctx.check("C09:mapping", len(mp) == n and set(mp.keys()) == set(range(n)) and set(inv) == set(nodes), "C09:binary_incidence_matrix:mapping-not-a-bijection", wit)
    exp = {(inv[v], j) for j, e in enumerate(listed) for v in e}
    C = B.tocoo()
    got = {(int(a), int(b)) for a, b, d in zip(C.row, C.col, C.data) if d != 0}
    ctx.check("C09:incidence", B.shape == (n, len(listed)) and got == exp and all(int(d) == 1 for d in C.data if d != 0), "C09:binary_incidence_matrix:entries", lambda: wit(sorted(got ^ exp)[:6]))
    r = call(la.adjacency_matrix, h, return_mapping=True)
    if isinstance(r, _Raised):
        ctx.check("C09:adjacency", False, f"C09:adjacency_matrix:raised:{type(r.e).__name__}", lambda: wit(r))
    else:
        A, mp2 = r
        inv2 = {v: k for k, v in mp2.items()}
        expA = {}
        for e in listed:
            for a in e:
                for b in e:
                    if a != b:
                        expA[(inv2[a], inv2[b])] = expA.get((inv2[a], inv2[b]), 0) + 1
        Ac = A.tocoo()
        gotA = {(int(a), int(b)): int(d) for a, b, d in zip(Ac.row, Ac.col, Ac.data) if d != 0}
        ctx.check("C09:adjacency", A.shape == (n, n) and gotA == expA, "C09:adjacency_matrix(function):entries:sparse-scale", lambda: wit((len(gotA), len(expA))))
    if not many_edges:
        r = call(la.dual_random_walk_adjacency, h, return_mapping=True)
        if not isinstance(r, _Raised):
            Dm = r[0].tocoo()
            gotD = {(int(a), int(b)) for a, b, d in zip(Dm.row, Dm.col, Dm.data) if d != 0}
            expD = {(i, j) for i, e in enumerate(listed) for j, f in enumerate(listed) if set(e) & set(f)}
            ctx.check("C09:dual", gotD == expD, "C09:dual_random_walk_adjacency:entries", lambda: wit(sorted(gotD ^ expD)[:6]))
    ctx.distinct_add(("sparse-scale", many_edges))


def run_case(ctx, rng, idx):
    if idx == 9 or (ctx.tier == "thorough" and idx % 6000 == 9):
        return sparse_scale_case(ctx, rng, idx, many_edges=False)
    if ctx.tier == "thorough" and idx % 6000 == 17:
        return sparse_scale_case(ctx, rng, idx, many_edges=True)
    m = idx % 8
    if idx == 1 or (ctx.tier == "thorough" and idx % 800 == 9):
        from ..gen import big_hypergraph

        ctx.event("big-hypergraph")
        static_case(ctx, rng, big_hypergraph(rng, weighted=rng.random() < 0.3, n=rng.randint(66, 90), m=rng.randint(100, 200)), idx, stress=True)
        return
    if m <= 4:
        h, uni = gen_hypergraph(rng)
        if rng.random() < 0.12 and not h.is_weighted():
            # a hyperedge that lost its only node (remove_node(keep_edges=True) on a singleton): the library may keep it
            # as the empty hyperedge (); it then has a column of zeros and shares no node with anything, itself included
            spare = [x for x in history.UNIVERSES[uni] if x not in h.get_nodes()]
            if spare:
                h.add_edge((spare[0],))
                h.remove_node(spare[0], keep_edges=True)
                if () in h.get_edges():
                    ctx.event("contains-the-empty-hyperedge")
        if h.is_weighted() and h.get_edges() and rng.random() < 0.4:
            # weight 0 is a weight: every hyperedge of one node gets it (that node is still a node of those hyperedges)
            v0 = rng.choice(sorted({n for e in h.get_edges() for n in e}, key=repr) or [None])
            for e in list(h.get_edges()):
                if v0 in e:
                    h.set_weight(e, rng.choice([0, 0.0]))
            ctx.event("all-hyperedges-of-one-node-have-weight-zero")
        static_case(ctx, rng, h, idx, stress=False)
        from ..mutate import same_count_edit

        if same_count_edit(rng, h):  # same object, same counts, other structure: stale memos show here
            ctx.event("re-evaluated-after-in-place-edit")
            static_case(ctx, rng, h, idx, stress=False)
        # same number of nodes, another node set (a node replaced by a new label)
        nodes = list(h.get_nodes())
        spare = [x for x in history.UNIVERSES[uni] if x not in nodes]
        if nodes and spare:
            h.remove_node(rng.choice(nodes))
            new = rng.choice(spare)
            rest = list(h.get_nodes())
            if rest and rng.random() < 0.7:
                h.add_edge((new, rng.choice(rest)), weight=2 if h.is_weighted() else None)
            else:
                h.add_node(new)
            ctx.event("re-evaluated-after-node-replacement")
            static_case(ctx, rng, h, idx, stress=False)
        if h.get_edges() and rng.random() < 0.3:  # the same hypergraph reached through other calls (copy of a copy / clear() and re-insertion)
            from ..mutate import second_order

            lab, g2 = second_order(rng, h)
            ctx.event("re-evaluated-on-" + lab)
            static_case(ctx, rng, g2, idx, stress=False)
    elif m == 5 and (idx // 8) % 4 == 3:
        # third stress family: FEW nodes (26-40 < 256), yet one node pair in 276+ hyperedges of ONE order (the pair plus every
        # 2-subset of 24 others), a few hyperedges of other orders: counts beyond one byte although every dimension is small
        import hypergraphx as hgx

        ctx.event("compact-pair-in-276-hyperedges-of-one-order")
        base = rng.choice([0, 50])
        others = [base + 2 + 3 * i for i in range(rng.choice([24, 25]))]
        a, b = base, base + 1
        h = hgx.Hypergraph()
        for c in itertools.combinations(others, 2):
            h.add_edge((a, b) + c)
        h.add_edge((a, others[0]))
        h.add_edge((b, others[1], others[2]))
        for x in range(rng.randint(0, 12)):
            h.add_node(1000 + x)
        hub_case(ctx, rng, h, idx, 3)
    elif m == 5 and (idx // 8) % 2 == 1:
        # second stress family: a hub in 256+ hyperedges of ONE order (non-contiguous labels, an isolated node)
        import hypergraphx as hgx

        n_leaves = rng.choice([255, 256, 257, 300])
        k = rng.choice([2, 2, 3])
        base = rng.choice([7, 1000])
        hub = base
        h = hgx.Hypergraph()
        leaves = [base + 2 * (i + 1) for i in range(n_leaves * (k - 1))]
        for i in range(n_leaves):
            h.add_edge((hub,) + tuple(leaves[i * (k - 1): (i + 1) * (k - 1)]))
        h.add_node(base - 3)
        hub_case(ctx, rng, h, idx, k - 1)
    elif m == 5:
        import hypergraphx as hgx

        n = rng.choice([8, 9, 10] if ctx.tier == "thorough" else [8, 9, 10, 8])
        if idx == 5:
            n = 10  # re-confirmation of the open finding (256 hyperedges through one pair) on every run
        base = rng.choice([0, 100])
        nodes = [base + 3 * i for i in range(n)]
        h = hgx.Hypergraph()
        rest = nodes[2:]
        for r in range(0, len(rest) + 1):
            for c in itertools.combinations(rest, r):
                h.add_edge((nodes[0], nodes[1]) + c)
        static_case(ctx, rng, h, idx, stress=True)
    elif m == 6:
        tensor_case(ctx, rng, idx)
    else:
        temporal_case(ctx, rng, idx)


def static_case(ctx, rng, h, idx, stress):
    from hypergraphx import linalg as la

    S = observe(h)
    K = KEYS["H"]
    nodes = list(S.nodes)
    edges_listed = [frozenset(e) for e in h.get_edges()]

    def wit(extra=None):
        d = S.describe() if not stress else {"stress": True, "n_nodes": len(nodes), "n_edges": len(S.edges)}
        return {"object": d, "extra": repr(extra)[:600]}

    # ---- binary incidence -----------------------------------------------------------------
    for name, fn in (("function", lambda: la.binary_incidence_matrix(h, return_mapping=True)),
                     ("method", lambda: h.binary_incidence_matrix(return_mapping=True))):
        r = call(fn)
        if isinstance(r, _Raised):
            ctx.check("C09:incidence", False, f"C09:binary_incidence_matrix({name}):raised:{type(r.e).__name__}", lambda: wit(r))
            continue
        B, mp = r
        B = dense(B)
        if not check_mapping(ctx, mp, nodes, B.shape[0], "binary_incidence_matrix", wit):
            continue
        ref = np.array([[1 if mp[i] in e else 0 for e in edges_listed] for i in range(len(nodes))]).reshape(len(nodes), len(edges_listed))
        ctx.check("C09:incidence", B.shape == ref.shape and np.array_equal(B, ref), f"C09:binary_incidence_matrix({name}):entries", lambda: wit((B.tolist(), ref.tolist())))
    r = call(la.incidence_matrix, h, return_mapping=True)
    if isinstance(r, _Raised):
        ctx.check("C09:incidence", False, f"C09:incidence_matrix:raised:{type(r.e).__name__}", lambda: wit(r))
    else:
        W, mp = r
        W = dense(W)
        if check_mapping(ctx, mp, nodes, W.shape[0], "incidence_matrix", wit):
            ref = np.array([[S.edges[e][0] if mp[i] in e else 0 for e in edges_listed] for i in range(len(nodes))], dtype=float).reshape(len(nodes), len(edges_listed))
            ctx.check("C09:incidence", W.shape == ref.shape and np.allclose(W, ref, rtol=1e-12, atol=0), "C09:incidence_matrix:entries", lambda: wit((W.tolist(), ref.tolist())))
    # ---- adjacency ------------------------------------------------------------------------
    for name, fn in (("function", lambda: la.adjacency_matrix(h, return_mapping=True)),
                     ("method", lambda: h.adjacency_matrix(return_mapping=True))):
        r = call(fn)
        if isinstance(r, _Raised):
            ctx.check("C09:adjacency", False, f"C09:adjacency_matrix({name}):raised:{type(r.e).__name__}", lambda: wit(r))
            continue
        A, mp = r
        A = dense(A)
        if not check_mapping(ctx, mp, nodes, A.shape[0], "adjacency_matrix", wit):
            continue
        ref = np.zeros((len(nodes), len(nodes)), dtype=np.int64)
        for i in range(len(nodes)):
            for j in range(len(nodes)):
                if i != j:
                    ref[i, j] = sum(1 for e in S.edges if mp[i] in e and mp[j] in e)
        mech = f"C09:adjacency_matrix({name}):entries" + (":stress" if stress else "")
        if A.shape == ref.shape and ref.max(initial=0) >= 256 and np.array_equal(A, ref % 256):
            # mechanism classifier for the open finding: counts wrap modulo 256 (uint8 product)
            mech = "C09:adjacency_matrix:uint8-wraparound-at-256-shared-hyperedges"
        ctx.check("C09:adjacency", A.shape == ref.shape and np.array_equal(A, ref), mech,
                  lambda: wit({"max_expected": int(ref.max()), "max_got": float(A.max()) if A.size else None, "got": A.tolist()[:3], "exp": ref.tolist()[:3]}))
    # ---- dual ------------------------------------------------------------------------------
    r = call(la.dual_random_walk_adjacency, h, return_mapping=True)
    if isinstance(r, _Raised):
        ctx.check("C09:dual", False, f"C09:dual_random_walk_adjacency:raised:{type(r.e).__name__}", lambda: wit(r))
    else:
        D, mp = r
        D = dense(D)
        E = len(edges_listed)
        ref = np.array([[1 if edges_listed[a] & edges_listed[b] else 0 for b in range(E)] for a in range(E)]).reshape(E, E)
        ctx.check("C09:dual", D.shape == ref.shape and np.array_equal(D, ref), "C09:dual_random_walk_adjacency:entries" + (":stress" if stress else ""), lambda: wit((D.tolist()[:4], ref.tolist()[:4])))
    if len(S.edges) >= 2:
        ctx.distinct_add(S.freeze())
    if idx % 100 < 2:
        ctx.sample({"object": S.describe() if not stress else {"stress family": len(S.edges)}})
    if not S.edges:
        return
    # ---- per-order variants (adjacency / Laplacian: unweighted only, as stated; the per-order INCIDENCE also for weighted
    # hypergraphs - entries are the hyperedge's weight, the mapping is onto the nodes of that order / all nodes) ---------------
    mx = max(K.size(k) for k in S.edges)
    orders = range(0, mx + 1) if not stress else rng.sample(range(1, mx + 1), 3)
    all_inc = call(la.incidence_matrices_all_orders, h) if not stress and not S.weighted else None
    all_lap = call(la.laplacian_matrices_all_orders, h) if not stress and not S.weighted else None
    by_order = {}
    for d in orders:
        sel = [frozenset(e) for e in h.get_edges(order=d)]
        ctx.check("C09:per-order", set(sel) == {k for k in S.edges if len(k) == d + 1}, "C09:oracle-selfcheck", wit)
        for keep in (False, True):
            r = call(la.incidence_matrix_by_order, h, npize(rng, d), keep_isolated_nodes=npize(rng, keep), return_mapping=True)
            if isinstance(r, _Raised):
                ctx.check("C09:per-order", False, f"C09:incidence_matrix_by_order:raised:{type(r.e).__name__}" + (":absent-order" if not sel else ""), lambda: wit((d, keep, r)))
                continue
            I, mp = r
            I = dense(I)
            exp_nodes = nodes if keep else sorted(set().union(*sel), key=repr) if sel else []
            if not check_mapping(ctx, mp, exp_nodes, I.shape[0] if I.ndim == 2 else 0, f"incidence_matrix_by_order(keep={keep})", wit):
                continue
            ref = np.array([[(S.edges[e][0] if S.weighted else 1) if mp[i] in e else 0 for e in sel] for i in range(len(exp_nodes))], dtype=float if S.weighted else int).reshape(len(exp_nodes), len(sel))
            ctx.check("C09:per-order", I.shape == ref.shape and (np.allclose(I, ref, rtol=1e-12, atol=0) if S.weighted else np.array_equal(I, ref)), f"C09:incidence_matrix_by_order(keep={keep}):entries" + (":weighted" if S.weighted else ""), lambda: wit((d, I.tolist(), ref.tolist())))
            by_order[(d, keep)] = ref
            if not keep and all_inc is not None and not isinstance(all_inc, _Raised) and 1 <= d <= mx - 1:
                ok = d in all_inc and np.array_equal(dense(all_inc[d]), I)
                ctx.check("C09:per-order", ok, "C09:incidence_matrices_all_orders:differs-from-by-order", lambda: wit(d))
        if S.weighted:
            continue
        r = call(la.adjacency_matrix_by_order, h, npize(rng, d), return_mapping=True)
        if isinstance(r, _Raised):
            ctx.check("C09:per-order", False, f"C09:adjacency_matrix_by_order:raised:{type(r.e).__name__}", lambda: wit((d, r)))
            continue
        A, mp = r
        A = dense(A)
        if not check_mapping(ctx, mp, nodes, A.shape[0], "adjacency_matrix_by_order", wit):
            continue
        N = len(nodes)
        refA = np.zeros((N, N), dtype=np.int64)
        for i in range(N):
            for j in range(N):
                if i != j:
                    refA[i, j] = sum(1 for e in sel if mp[i] in e and mp[j] in e)
        ctx.check("C09:per-order", np.array_equal(A, refA), "C09:adjacency_matrix_by_order:entries" + (":stress" if stress else ""), lambda: wit((d, A.tolist()[:3], refA.tolist()[:3])))
        degs = np.array([sum(1 for e in sel if mp[i] in e) for i in range(N)])
        r = call(la.degree_matrix, h, d, mp)
        if isinstance(r, _Raised):
            ctx.check("C09:laplacian", False, f"C09:degree_matrix:raised:{type(r.e).__name__}", lambda: wit((d, r)))
        else:
            Dm = dense(r)
            ctx.check("C09:laplacian", Dm.shape == (N, N) and np.array_equal(Dm, np.diag(degs)), "C09:degree_matrix:entries", lambda: wit((d, np.diag(Dm).tolist(), degs.tolist())))
        r = call(la.laplacian_matrix_by_order, h, npize(rng, d))
        if isinstance(r, _Raised):
            ctx.check("C09:laplacian", False, f"C09:laplacian_matrix_by_order:raised:{type(r.e).__name__}", lambda: wit((d, r)))
            continue
        L = dense(r)
        refL = d * np.diag(degs) - refA
        ctx.check("C09:laplacian", L.shape == refL.shape and np.array_equal(L, refL), "C09:laplacian_matrix_by_order:entries", lambda: wit((d, L.tolist()[:3], refL.tolist()[:3])))
        ctx.check("C09:laplacian", L.shape == (N, N) and np.array_equal(L, L.T) and not L.sum(axis=1).any(), "C09:laplacian:not-symmetric-or-rowsum", lambda: wit(d))
        if all_lap is not None and not isinstance(all_lap, _Raised) and 1 <= d <= mx - 1:
            ctx.check("C09:laplacian", d in all_lap and np.array_equal(dense(all_lap[d]), L), "C09:laplacian_matrices_all_orders:differs", lambda: wit(d))
    if not stress and not S.weighted:
        # the batch route under every flag combination gives, per order, what the single-order route gives
        for keep in (False, True):
            for rm in (False, True):
                r = call(la.incidence_matrices_all_orders, h, keep_isolated_nodes=keep, return_mapping=rm)
                if isinstance(r, _Raised):
                    ctx.check("C09:per-order", False, f"C09:incidence_matrices_all_orders(keep={keep},return_mapping={rm}):raised:{type(r.e).__name__}", lambda: wit(r))
                    continue
                for d in range(1, mx):
                    if (d, keep) not in by_order:
                        continue
                    ok = isinstance(r, dict) and d in r and hasattr(r[d], "shape") and np.array_equal(dense(r[d]), by_order[(d, keep)])
                    ctx.check("C09:per-order", ok, f"C09:incidence_matrices_all_orders(keep_isolated_nodes={keep},return_mapping={rm}):differs-from-by-order", lambda: wit((d, keep, rm)))
    if all_lap is not None and isinstance(all_lap, _Raised):
        ctx.check("C09:laplacian", False, f"C09:laplacian_matrices_all_orders:raised:{type(all_lap.e).__name__}", lambda: wit(all_lap))
    if all_inc is not None and isinstance(all_inc, _Raised):
        ctx.check("C09:per-order", False, f"C09:incidence_matrices_all_orders:raised:{type(all_inc.e).__name__}", lambda: wit(all_inc))
    # ---- the matrix returned WITHOUT the mapping is the matrix returned with it ---------------------
    # (the mapping is then the documented default: sorted labels -> rows; both code paths end in different returns)
    ds = sorted({K.size(k) - 1 for k in S.edges if K.size(k) >= 2})
    pairs = [("binary_incidence_matrix", lambda **kw: la.binary_incidence_matrix(h, **kw)),
             ("binary_incidence_matrix(method)", lambda **kw: h.binary_incidence_matrix(**kw)),
             ("incidence_matrix", lambda **kw: la.incidence_matrix(h, **kw)),
             ("incidence_matrix(method)", lambda **kw: h.incidence_matrix(**kw)),
             ("adjacency_matrix", lambda **kw: la.adjacency_matrix(h, **kw)),
             ("adjacency_matrix(method)", lambda **kw: h.adjacency_matrix(**kw)),
             ("dual_random_walk_adjacency", lambda **kw: la.dual_random_walk_adjacency(h, **kw)),
             ("dual_random_walk_adjacency(method)", lambda **kw: h.dual_random_walk_adjacency(**kw))]
    if ds and not stress:
        d0 = rng.choice(ds)
        pairs += [(f"adjacency_matrix_by_order", lambda **kw: la.adjacency_matrix_by_order(h, d0, **kw)),
                  (f"incidence_matrix_by_order", lambda **kw: la.incidence_matrix_by_order(h, d0, **kw))]
    for name, fn in pairs:
        a, b = call(fn, return_mapping=True), call(fn)
        if isinstance(a, _Raised) or isinstance(b, _Raised):
            ctx.check("C09:no-mapping-path", isinstance(a, _Raised) == isinstance(b, _Raised), f"C09:{name}:raises-only-with-or-only-without-return_mapping", lambda: wit((name, a, b)))
            continue
        ok = isinstance(a, tuple) and len(a) == 2 and not isinstance(b, tuple) and getattr(b, "shape", None) == a[0].shape and np.array_equal(dense(a[0]), dense(b))
        ctx.check("C09:no-mapping-path", ok, f"C09:{name}:matrix-without-mapping-differs-from-matrix-with-mapping", lambda: wit(name))


def hub_case(ctx, rng, h, idx, d):
    """per-order adjacency and Laplacian on a hub with >= 255 hyperedges of one order; the dense references are
    obtained from an int64 incidence matrix built from the public listing (definition: counts of shared hyperedges)"""
    from hypergraphx import linalg as la

    nodes = sorted(h.get_nodes())
    row = {n: i for i, n in enumerate(nodes)}
    edges = [tuple(e) for e in h.get_edges() if len(e) == d + 1]  # the per-order matrices count the hyperedges of that order only
    N = len(nodes)
    B = np.zeros((N, len(edges)), dtype=np.int64)
    for j, e in enumerate(edges):
        for v in e:
            B[row[v], j] = 1
    refA = B @ B.T
    degs = np.diag(refA).copy()
    np.fill_diagonal(refA, 0)

    def wit(extra=None):
        return {"hub family": {"hyperedges": len(edges), "order": d, "nodes": N}, "extra": repr(extra)[:400]}

    r = call(la.adjacency_matrix_by_order, h, d, return_mapping=True)
    if isinstance(r, _Raised):
        ctx.check("C09:per-order", False, f"C09:adjacency_matrix_by_order:raised:{type(r.e).__name__}:hub", lambda: wit(r))
    else:
        A, mp = r
        A = dense(A)
        if check_mapping(ctx, mp, nodes, A.shape[0], "adjacency_matrix_by_order", wit):
            perm = [row[mp[i]] for i in range(N)]
            ctx.check("C09:per-order", np.array_equal(A, refA[np.ix_(perm, perm)]), "C09:adjacency_matrix_by_order:entries:hub", lambda: wit((float(A.max()), int(refA.max()))))
    r = call(la.laplacian_matrix_by_order, h, d)
    if isinstance(r, _Raised):
        ctx.check("C09:laplacian", False, f"C09:laplacian_matrix_by_order:raised:{type(r.e).__name__}:hub", lambda: wit(r))
    else:
        L = dense(r)
        refL = d * np.diag(degs) - refA  # rows in sorted-label order = the library's mapping order
        ctx.check("C09:laplacian", L.shape == refL.shape and np.array_equal(L, refL), "C09:laplacian_matrix_by_order:entries:hub", lambda: wit((np.diag(L)[:3].tolist(), np.diag(refL)[:3].tolist())))
        ctx.check("C09:laplacian", L.shape == (N, N) and not L.sum(axis=1).any(), "C09:laplacian:row-sums-not-zero:hub", lambda: wit(float(np.abs(L.sum(axis=1)).max())))
    ctx.distinct_add(("hub", len(edges), d, nodes[0]))


def tensor_case(ctx, rng, idx):
    import hypergraphx as hgx
    from hypergraphx.linalg import adjacency_tensor

    N = rng.randint(2, 6)
    k = rng.randint(1, min(4, N))
    h = hgx.Hypergraph(weighted=rng.random() < 0.2)
    h.add_nodes(list(range(N)))
    for _ in range(rng.randint(1, 6)):
        e = tuple(rng.sample(range(N), k))
        if not h.check_edge(e):
            h.add_edge(e, weight=2 if h.is_weighted() else None)
    S = observe(h)
    r = call(adjacency_tensor, h)

    def wit(extra=None):
        return {"object": S.describe(), "extra": repr(extra)[:500]}

    if isinstance(r, _Raised):
        ctx.check("C09:tensor", False, f"C09:adjacency_tensor:raised:{type(r.e).__name__}", lambda: wit(r))
        return
    ref = np.zeros((N,) * k)
    for e in S.edges:
        for p in itertools.permutations(sorted(e)):
            ref[p] = 1
    ctx.check("C09:tensor", r.shape == ref.shape and np.array_equal(r, ref), "C09:adjacency_tensor:entries", wit)
    # symmetric indicator: invariant under every axis permutation
    ok = all(np.array_equal(r, np.transpose(r, p)) for p in itertools.permutations(range(k)))
    ctx.check("C09:tensor", ok, "C09:adjacency_tensor:not-symmetric", wit)
    if len(S.edges) >= 2:
        ctx.distinct_add(("tensor", S.freeze()))
    # non-uniform must be refused
    if N >= 3 and k < N:
        g = h.copy()
        g.add_edge(tuple(range(k + 1)), weight=2 if h.is_weighted() else None)
        if not isinstance(call(adjacency_tensor, g), _Raised):
            ctx.note("observation:adjacency_tensor accepted a non-uniform hypergraph")  # only uniform inputs are claimed


class NullCtx:
    def __getattr__(self, k):
        return lambda *a, **kw: True


def temporal_case(ctx, rng, idx):
    from hypergraphx.linalg import temporal_adjacency_matrix

    cfg = history.Cfg(rng, "T", uni=rng.choice(["small", "gaps", "str", "bigneg"]))
    cfg.invalid_rate = 0.1  # refused calls are part of the build: they must leave no trace in what is measured
    cfg.avoid = {"copy", "clear"}
    cfg.n_ops = rng.randint(5, 25)
    if idx in (7, 15) or (ctx.tier == "thorough" and idx % 800 == 23):
        # "all times": non-negative integers have no upper bound (beyond 2**53, 2**63 and 2**64 included)
        cfg.time_pool = [0, 7, 2**53 + 1, 2**63 - 1, 2**63, 2**64 + 5, 10**30]
        ctx.event("huge-time-stamps")
    try:
        live, _ = history.run_history(history.BuildCtx(ctx, "C09"), rng, cfg, battery_every=0)
    except Exception as e:
        ctx.note("build-failed:" + type(e).__name__)
        return
    h = live[0][0]
    temporal_eval(ctx, rng, idx, h, 0)


def temporal_eval(ctx, rng, idx, h, phase):
    from hypergraphx.linalg import temporal_adjacency_matrix

    S = observe(h)

    def wit(extra=None):
        return {"object": S.describe(), "phase": phase, "extra": repr(extra)[:600]}

    for name, fn in (("function", lambda: temporal_adjacency_matrix(h, return_mapping=True)),
                     ("method", lambda: h.temporal_adjacency_matrix(return_mapping=True))):
        r = call(fn)
        if isinstance(r, _Raised):
            ctx.check("C09:temporal", False, f"C09:temporal_adjacency_matrix({name}):raised:{type(r.e).__name__}", lambda: wit(r))
            continue
        mats, maps = r
        times = sorted({k[0] for k in S.edges})
        ctx.check("C09:temporal", sorted(mats.keys()) == times and sorted(maps.keys()) == times, "C09:temporal_adjacency_matrix:times", lambda: wit(sorted(mats.keys())))
        for t in times:
            if t not in mats or t not in maps:
                continue
            snap = [k[1] for k in S.edges if k[0] == t]
            snodes = set().union(*snap)
            A = dense(mats[t])
            mp = maps[t]
            if not check_mapping(ctx, mp, list(snodes), A.shape[0], "temporal_adjacency_matrix", wit):
                continue
            N = len(snodes)
            ref = np.zeros((N, N), dtype=np.int64)
            for i in range(N):
                for j in range(N):
                    if i != j:
                        ref[i, j] = sum(1 for e in snap if mp[i] in e and mp[j] in e)
            ctx.check("C09:temporal", np.array_equal(A, ref), "C09:temporal_adjacency_matrix:entries", lambda: wit((t, A.tolist(), ref.tolist())))
    a, b = call(temporal_adjacency_matrix, h, return_mapping=True), call(temporal_adjacency_matrix, h)
    if not isinstance(a, _Raised) and not isinstance(b, _Raised):
        ok = isinstance(b, dict) and sorted(b.keys()) == sorted(a[0].keys()) and all(np.array_equal(dense(b[t]), dense(a[0][t])) for t in b)
        ctx.check("C09:no-mapping-path", ok, "C09:temporal_adjacency_matrix:matrices-without-mapping-differ-from-matrices-with-mapping", wit)
    else:
        ctx.check("C09:no-mapping-path", isinstance(a, _Raised) == isinstance(b, _Raised), "C09:temporal_adjacency_matrix:raises-only-with-or-only-without-return_mapping", lambda: wit((a, b)))
    S2 = observe(h)
    ctx.check("C09:temporal", S2.same(S, with_hgmd=True), "C09:temporal_adjacency_matrix:mutated-argument", wit)
    if phase == 0 and S.edges:
        # a caller editing the snapshots it was handed must not change what the temporal hypergraph answers next
        try:
            for g in h.subhypergraph().values():
                g.add_node("__caller_edit__" if any(isinstance(n, str) for n in S.nodes) else -424242)
        except Exception as e:
            ctx.note("snapshot-edit-raised:" + type(e).__name__)
        ctx.event("re-evaluated-after-editing-returned-snapshots")
        temporal_eval(ctx, rng, idx, h, 1)
    if len(S.edges) >= 2:
        ctx.distinct_add(("T", S.freeze()))
