"""C10: graph projections (bipartite, clique, line graph, directed line graph) and the
simplicial complex against the incidence structure read from the public observation."""
import itertools

from .. import history
from ..battery import call, _Raised
from ..observe import npize, observe
from .c08 import gen_hypergraph

N_RANDOM = {"quick": 800, "thorough": 40000}
N_EXH = 2 ** 15 - 1  # every non-empty hypergraph on 4 fixed nodes, thorough tier only
TIERS = {"quick": N_RANDOM["quick"], "thorough": N_RANDOM["thorough"] + N_EXH}
EXHAUSTIVE = {"quick": False, "thorough": True}
WATCHDOG_S = {"quick": 900, "thorough": 7200}
RULE = ("case kinds: 3 of 4 a random Hypergraph (1-8 nodes, sizes 1-5, nested hyperedges, isolated nodes, all label "
        "universes) checked for bipartite, clique (both keep_isolated), line graph (intersection s in 1..4, jaccard s in "
        "{0.1,0.25,1/3,0.5,2/3,1.0}, weighted both) and simplicial complex; every 4th a DirectedHypergraph history end "
        "state checked for the directed line graph. non-trivial = >=2 hyperedges sharing a node; distinct = by abstract state")
DECIDING = ["C10:bipartite", "C10:clique", "C10:line", "C10:directed-line", "C10:simplicial"]
ASSUMPTIONS = ["thresholds s compare with the similarity computed by the same float expression len(a&b)/len(a|b)"]
JS = sorted({i / u for u in range(1, 11) for i in range(1, u + 1)})  # every similarity value two hyperedges of size <= 5 can realise


class NullCtx:
    def __getattr__(self, k):
        return lambda *a, **kw: True


def dist(kind, a, b):
    return len(a & b) if kind == "intersection" else len(a & b) / len(a | b)


def run_case(ctx, rng, idx):
    if idx >= N_RANDOM[ctx.tier]:
        import hypergraphx as hgx

        mask = idx - N_RANDOM[ctx.tier] + 1
        nodes = ["E", "a", "b", "n"]
        poss = [c for r in range(1, 5) for c in itertools.combinations(nodes, r)]
        h = hgx.Hypergraph([e for i, e in enumerate(poss) if mask >> i & 1])
        ctx.event("exhaustive-4-node-hypergraph")
        undirected_eval(ctx, rng, idx, h)
        return
    if idx == 2 or (ctx.tier == "thorough" and idx % 700 == 11):
        # hyperedges that SHARE 256, 257, 258 nodes (the dual of a node pair in 256+ hyperedges): intersection sizes are
        # numbers, not bytes.  Only the line graph is judged on this input (its downward closure has 2**300 faces).
        import hypergraphx as hgx

        ctx.event("hyperedges-sharing-256+-nodes")
        base = rng.choice([0, 1000])
        A = tuple(range(base, base + 300))
        B = tuple(range(base, base + 256)) + tuple(range(base + 400, base + 440))
        C = tuple(range(base, base + 257)) + tuple(range(base + 500, base + 520))
        D = tuple(range(base, base + 258)) + (base + 600,)
        small = [(base, base + 700), (base + 700, base + 701, base + 1), (base + 299, base + 702)]
        hb = hgx.Hypergraph([A, B, C, D] + small)
        undirected_eval(ctx, rng, idx, hb, only_line=True)
        return
    if idx in (5, 9) or (ctx.tier == "thorough" and idx % 700 == 13):
        # a hub: one node in 40-70 hyperedges of sizes 2-4 (their pairwise similarities range from 1/7 to 1), plus hyperedges
        # that avoid it - every threshold between two realised similarities separates some pairs that share the hub
        import hypergraphx as hgx

        ctx.event("hub-in-40+-hyperedges")
        base = rng.choice([0, 500])
        hub = base
        others = [base + 3 * i + 1 for i in range(rng.randint(12, 18))]
        es = set()
        while len(es) < rng.randint(40, 70):
            es.add(tuple(sorted([hub] + rng.sample(others, rng.choice([1, 1, 2, 2, 3])))))
        for _ in range(rng.randint(3, 8)):
            es.add(tuple(sorted(rng.sample(others, rng.choice([2, 3])))))
        es = sorted(es)
        rng.shuffle(es)
        undirected_eval(ctx, rng, idx, hgx.Hypergraph(es), only_line=True)
        return
    if idx == 1 or (ctx.tier == "thorough" and idx % 700 == 9):
        from ..gen import big_hypergraph

        ctx.event("big-hypergraph")
        undirected_eval(ctx, rng, idx, big_hypergraph(rng, sizes=(1, 2, 2, 3, 4, 5), n=rng.randint(30, 50), m=rng.randint(80, 160)))
        return
    if ctx.tier == "thorough" and idx % 20000 == 15:
        return many_arcs_case(ctx, rng, idx)
    if idx % 4 == 3:
        return directed_case(ctx, rng, idx)
    from hypergraphx.representations import projections as pr
    from hypergraphx.representations.simplicial_complex import simplicial_complex

    h, uni = gen_hypergraph(rng)
    # force nesting / overlaps
    es = h.get_edges()
    if es and rng.random() < 0.6:
        e = rng.choice(es)
        if len(e) >= 2:
            h.add_edge(tuple(rng.sample(list(e), len(e) - 1)), weight=1 if h.is_weighted() else None)
    undirected_eval(ctx, rng, idx, h)
    from ..mutate import same_count_edit

    if same_count_edit(rng, h):
        ctx.event("re-evaluated-after-in-place-edit")
        undirected_eval(ctx, rng, idx, h)
    if rng.random() < 0.3:  # the same hypergraph reached through other calls (copy of a copy / clear() and re-insertion)
        from ..mutate import second_order

        lab, g2 = second_order(rng, h)
        ctx.event("re-evaluated-on-" + lab)
        undirected_eval(ctx, rng, idx, g2)


def undirected_eval(ctx, rng, idx, h, only_line=False):
    from hypergraphx.representations import projections as pr
    from hypergraphx.representations.simplicial_complex import simplicial_complex

    S = observe(h)
    nodes = set(S.nodes)
    edges = list(S.edges)

    def wit(extra=None):
        return {"object": S.describe() if len(S.edges) <= 30 else {"nodes": len(S.nodes), "edges": len(S.edges)}, "extra": repr(extra)[:700]}

    # ---- bipartite --------------------------------------------------------------------------
    r = call(pr.bipartite_projection, h) if not only_line else None
    if r is None:
        pass
    elif isinstance(r, _Raised):
        ctx.check("C10:bipartite", False, f"C10:bipartite:raised:{type(r.e).__name__}", lambda: wit(r))
    else:
        g, ids = r
        V = set(g.nodes)
        ctx.check("C10:bipartite", V == set(ids.keys()) and len(V) == len(nodes) + len(edges), "C10:bipartite:vertex-count-or-id-table", lambda: wit((sorted(map(str, V)), len(nodes), len(edges))))
        nv = {v for v in V if g.nodes[v].get("bipartite") == 0}
        ev = V - nv
        objs_n = [ids.get(v) for v in nv]
        objs_e = [ids.get(v) for v in ev]
        okn = len(objs_n) == len(nodes) and set(objs_n) == nodes
        try:
            oke = len(objs_e) == len(edges) and {frozenset(o) for o in objs_e} == set(edges)
        except TypeError:
            oke = False
        ctx.check("C10:bipartite", okn and oke, "C10:bipartite:id-table-not-inverse", lambda: wit((objs_n, objs_e)))
        if okn and oke:
            exp = {frozenset((vn, ve)) for vn in nv for ve in ev if ids[vn] in frozenset(ids[ve])}
            got = {frozenset(e) for e in g.edges}
            ctx.check("C10:bipartite", got == exp and g.number_of_edges() == len(exp), "C10:bipartite:membership-edges", lambda: wit((sorted(map(sorted, got)), sorted(map(sorted, exp)))))
    # ---- clique -----------------------------------------------------------------------------
    exp_pairs = {frozenset(p) for e in edges for p in itertools.combinations(e, 2)}
    for keep in ((False, True) if not only_line else ()):
        g = call(pr.clique_projection, h, keep_isolated=keep)
        if isinstance(g, _Raised):
            ctx.check("C10:clique", False, f"C10:clique:raised:{type(g.e).__name__}", lambda: wit(g))
            continue
        got = {frozenset(e) for e in g.edges}
        ctx.check("C10:clique", got == exp_pairs and not any(len(p) == 1 for p in got), f"C10:clique(keep_isolated={keep}):edges", lambda: wit((sorted(map(sorted, got)), sorted(map(sorted, exp_pairs)))))
        V = set(g.nodes)
        if keep:
            ctx.check("C10:clique", V == nodes, "C10:clique(keep_isolated=True):node-set", lambda: wit(V))
        else:
            ctx.check("C10:clique", V <= nodes and V >= set().union(*exp_pairs) if exp_pairs else V <= nodes, "C10:clique(keep_isolated=False):node-set", lambda: wit(V))
    # ---- line graph -------------------------------------------------------------------------
    combos = [("intersection", s) for s in (1, 2, 3, 4)] + [("jaccard", s) for s in JS]
    if only_line:
        combos += [("intersection", s) for s in (255, 256, 257, 258)]
    realised = sorted({len(a & b) / len(a | b) for a, b in itertools.combinations(edges, 2) if a & b})
    combos = rng.sample(combos, 5 if ctx.tier == "quick" else 10) + [("jaccard", s) for s in realised[:6]]  # thresholds hit exactly
    if only_line:  # (few, large inputs: every jaccard threshold of the grid, and realised values from the whole range)
        combos += [("jaccard", s) for s in JS] + [("jaccard", s) for s in rng.sample(realised, min(4, len(realised)))]
    # ... and thresholds a hair above / below a realised value (1e-11 relative: far beyond rounding of the quotient,
    # far below any "close enough" tolerance): only ">= s" in the strict sense joins
    combos += [("jaccard", v * f) for v in realised[:4] for f in (1 + 1e-11, 1 - 1e-11) if 0 < v * f <= 1]
    for kind, s in combos:
        for weighted in (False, True):
            sv, wv = npize(rng, s), npize(rng, weighted)
            for name, fn in (("function", lambda: pr.line_graph(h, kind, sv, wv)), ("method", lambda: h.to_line_graph(kind, sv, wv))):
                if name == "method" and rng.random() < 0.7:
                    continue
                r = call(fn)
                if isinstance(r, _Raised):
                    ctx.check("C10:line", False, f"C10:line_graph:raised:{type(r.e).__name__}", lambda: wit((kind, s, r)))
                    continue
                g, ids = r
                V = set(g.nodes)
                try:
                    ok = V == set(ids.keys()) and len(V) == len(edges) and {frozenset(ids[v]) for v in V} == set(edges)
                except TypeError:
                    ok = False
                ctx.check("C10:line", ok, "C10:line_graph:vertices-not-one-per-hyperedge", lambda: wit((kind, s, dict(ids))))
                if not ok:
                    continue
                fs = {v: frozenset(ids[v]) for v in V}
                exp = {}
                for a, b in itertools.combinations(sorted(V), 2):
                    w = dist(kind, fs[a], fs[b])
                    if w >= s:
                        exp[frozenset((a, b))] = w
                got = {frozenset((a, b)): d.get("weight") for a, b, d in g.edges(data=True)}
                ctx.check("C10:line", set(got) == set(exp), f"C10:line_graph({kind}):adjacency", lambda: wit((kind, s, weighted, sorted(map(sorted, got)), sorted(map(sorted, exp)))))
                if weighted and set(got) == set(exp):
                    ctx.check("C10:line", got == exp, f"C10:line_graph({kind}):weights", lambda: wit((kind, s, got, exp)))
    # ---- simplicial complex -----------------------------------------------------------------
    sc = call(simplicial_complex, h) if not only_line else _Raised(RuntimeError("skipped"))
    if only_line:
        pass
    elif isinstance(sc, _Raised):
        if edges:  # (an edgeless input has no downward closure to build; not claimed)
            ctx.check("C10:simplicial", False, f"C10:simplicial_complex:raised:{type(sc.e).__name__}", lambda: wit(sc))
    else:
        got = {frozenset(e) for e in sc.get_edges()}
        need = {frozenset(c) for e in edges for r_ in range(1, len(e) + 1) for c in itertools.combinations(e, r_)}
        ctx.check("C10:simplicial", need <= got, "C10:simplicial_complex:missing-face", lambda: wit(sorted(map(sorted, need - got))[:5]))
        extra = [x for x in got if len(x) > 0 and not any(x <= e for e in edges)]
        ctx.check("C10:simplicial", not extra, "C10:simplicial_complex:face-outside-every-hyperedge", lambda: wit(extra[:5]))
    S2 = observe(h)
    ctx.check("C10:line", S2.same(S, with_hgmd=True), "C10:projection-mutated-argument", wit)
    if len(edges) >= 2 and any(a & b for a, b in itertools.combinations(edges, 2)):
        ctx.distinct_add(S.freeze())
    if idx % 100 < 2:
        ctx.sample({"object": S.describe()})


def many_arcs_case(ctx, rng, idx):
    """(Thorough tier.)  450 hyperedges into one node and 450 out of it: 202 500 arcs in the directed line graph; every arc
    e->f with target(e) meeting source(f) is there, whatever their number."""
    import hypergraphx as hgx
    from hypergraphx.representations import projections as pr

    ctx.event("202500-arcs")
    k = 450
    edges = [((1000 + i,), (0,)) for i in range(k)] + [((0,), (5000 + i,)) for i in range(k)]
    h = hgx.DirectedHypergraph(edges)
    r = call(pr.directed_line_graph, h, "intersection", 1, False)
    if isinstance(r, _Raised):
        ctx.check("C10:directed-line", False, f"C10:directed_line_graph:raised:{type(r.e).__name__}", {"arcs": k * k})
        return
    g, ids = r
    key = {v: (frozenset(ids[v][0]), frozenset(ids[v][1])) for v in g.nodes}
    exp = {(a, b) for a in key for b in key if a != b and key[a][1] & key[b][0]}
    got = set(g.edges())
    ctx.check("C10:directed-line", len(key) == 2 * k and got == exp, "C10:directed_line_graph(intersection):arcs", lambda: {"expected": len(exp), "got": len(got), "missing": sorted(exp - got)[:3], "extra": sorted(got - exp)[:3]})
    ctx.distinct_add(("many-arcs", k))


def directed_case(ctx, rng, idx):
    from hypergraphx.representations import projections as pr

    cfg = history.Cfg(rng, "D")
    cfg.invalid_rate = 0.1  # refused calls are part of the build: they must leave no trace in what is measured
    cfg.avoid = {"copy", "clear"}
    cfg.n_ops = rng.randint(5, 25)
    try:
        live, _ = history.run_history(history.BuildCtx(ctx, "C10"), rng, cfg, battery_every=0)
    except Exception as e:
        ctx.note("build-failed:" + type(e).__name__)
        return
    h = live[0][0]
    directed_eval(ctx, rng, idx, h)
    from ..mutate import same_count_edit

    if same_count_edit(rng, h, directed=True):
        ctx.event("re-evaluated-after-in-place-edit")
        directed_eval(ctx, rng, idx, h)
    if rng.random() < 0.3:  # the same hypergraph reached through other calls (copy of a copy / clear() and re-insertion)
        from ..mutate import second_order

        lab, g2 = second_order(rng, h, directed=True)
        ctx.event("re-evaluated-on-" + lab)
        directed_eval(ctx, rng, idx, g2)


def directed_eval(ctx, rng, idx, h):
    from hypergraphx.representations import projections as pr

    S = observe(h)
    edges = list(S.edges)

    def wit(extra=None):
        return {"object": S.describe(), "extra": repr(extra)[:700]}

    combos = [("intersection", s) for s in (1, 2, 3)] + [("jaccard", s) for s in rng.sample(JS, 6)]
    realised = sorted({len(a[1] & b[0]) / len(a[1] | b[0]) for a in edges for b in edges if a != b and a[1] & b[0]})
    combos += [("jaccard", s) for s in realised[:6]]
    combos += [("jaccard", v * f) for v in realised[:4] for f in (1 + 1e-11, 1 - 1e-11) if 0 < v * f <= 1]
    for kind, s in combos:
        for weighted in (False, True):
            sv, wv = npize(rng, s), npize(rng, weighted)
            r = call(pr.directed_line_graph, h, kind, sv, wv) if rng.random() < 0.7 else call(h.to_line_graph, kind, sv, wv)
            if isinstance(r, _Raised):
                ctx.check("C10:directed-line", False, f"C10:directed_line_graph:raised:{type(r.e).__name__}", lambda: wit((kind, s, r)))
                continue
            g, ids = r
            V = set(g.nodes)
            try:
                ok = V == set(ids.keys()) and len(V) == len(edges) and {(frozenset(ids[v][0]), frozenset(ids[v][1])) for v in V} == set(edges)
            except Exception:
                ok = False
            ctx.check("C10:directed-line", ok, "C10:directed_line_graph:vertices-not-one-per-hyperedge", lambda: wit((kind, s, dict(ids))))
            if not ok:
                continue
            key = {v: (frozenset(ids[v][0]), frozenset(ids[v][1])) for v in V}
            exp = {}
            for a in V:
                for b in V:
                    if a != b:
                        w = dist(kind, key[a][1], key[b][0])
                        if w >= s:
                            exp[(a, b)] = w
            got = {(a, b): d.get("weight") for a, b, d in g.edges(data=True)}
            ctx.check("C10:directed-line", set(got) == set(exp), f"C10:directed_line_graph({kind}):arcs", lambda: wit((kind, s, sorted(got), sorted(exp))))
            if weighted and set(got) == set(exp):
                ctx.check("C10:directed-line", got == exp, f"C10:directed_line_graph({kind}):weights", lambda: wit((kind, s, got, exp)))
    if len(edges) >= 2:
        ctx.distinct_add(("D", S.freeze()))
