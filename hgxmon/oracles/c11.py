"""C11: motif census vs exhaustive enumeration; relabelling / insertion-order invariance."""
import contextlib
import io
import itertools

import numpy as np

from ..battery import call, _Raised

N_RANDOM = {"quick": 200, "thorough": 5000}
PAT3 = None
PAT4 = None
TIERS = {"quick": N_RANDOM["quick"], "thorough": N_RANDOM["thorough"] + 12 + 1990}
EXHAUSTIVE = {"quick": False, "thorough": True}
WATCHDOG_S = {"quick": 1500, "thorough": 14000}
RULE = ("random cases by index mod 10: 0-5 undirected order 3, 6-7 undirected order 4, 8-9 directed (order 3 or 4); "
        "hypergraphs on 3-9 integer nodes with hyperedge sizes 1-6; each census is compared with brute-force enumeration "
        "over all 3-/4-subsets and recomputed after a random label permutation (non-contiguous labels) and a shuffled "
        "insertion order. thorough additionally enumerates EVERY connected labelled pattern on 3 nodes (12) and on 4 "
        "nodes (1990) as a single-motif input (exhaustive for that sub-space). non-trivial = census has >=2 motif "
        "occurrences; distinct = by edge set")
DECIDING = ["C11:census", "C11:relabel-invariance", "C11:directed"]
ASSUMPTIONS = ["canonical form = lexicographic minimum over node permutations of the sorted relabelled edge tuple"]

_CANON = {}


HOSTILE_LABELS = [0, 1, 2, 3, 4, 5, 2**32 + 2, 2**32 + 3, 2**32 + 4, 2**32 + 5, -1, -2, 2**61 - 1, 2**63 + 1]


def quiet(fn, *a, **k):
    with contextlib.redirect_stdout(io.StringIO()):
        return fn(*a, **k)


def canon(edges, N):
    """edges: iterable of tuples over labels 1..N"""
    key = (tuple(sorted(tuple(sorted(e)) for e in edges)), N)
    if key in _CANON:
        return _CANON[key]
    best = None
    for perm in itertools.permutations(range(1, N + 1)):
        m = dict(zip(range(1, N + 1), perm))
        c = tuple(sorted(tuple(sorted(m[v] for v in e)) for e in key[0]))
        if best is None or c < best:
            best = c
    _CANON[key] = best
    return best


def connected(edges, nodes):
    nodes = list(nodes)
    if not edges:
        return False
    comp = {n: n for n in nodes}

    def f(x):
        while comp[x] != x:
            x = comp[x]
        return x

    for e in edges:
        for a in e[1:]:
            comp[f(e[0])] = f(a)
    return len({f(n) for n in nodes}) == 1


def brute_census(edge_sets, N):
    """edge_sets: set of frozensets (any sizes). Returns {canonical pattern: count}"""
    nodes = sorted(set().union(*edge_sets)) if edge_sets else []
    usable = [e for e in edge_sets if 2 <= len(e) <= N]
    out = {}
    for sub in itertools.combinations(nodes, N):
        ss = set(sub)
        inside = [e for e in usable if e <= ss]
        if not inside or not connected([tuple(e) for e in inside], sub):
            continue
        m = {v: i + 1 for i, v in enumerate(sub)}
        c = canon([tuple(m[v] for v in e) for e in inside], N)
        out[c] = out.get(c, 0) + 1
    return out


def lib_census(h, N):
    from hypergraphx.motifs import compute_motifs

    r = quiet(compute_motifs, h, order=N, runs_config_model=0)["observed"]
    return r


def all_patterns(N):
    poss = [c for r in range(2, N + 1) for c in itertools.combinations(range(N), r)]
    out = []
    for mask in range(1, 1 << len(poss)):
        es = [poss[i] for i in range(len(poss)) if mask >> i & 1]
        if set().union(*es) == set(range(N)) and connected(es, range(N)):
            out.append(es)
    return out


def book_case(ctx, rng, idx):
    """Two linked hubs sharing L = 130 ... 300 pairwise neighbours ('book' with L pages), one page also closed by a 3-hyperedge:
    the order-3 census in closed form - L-1 pairwise triangles, 1 triangle filled by its 3-hyperedge, L(L-1) open two-paths
    (both hubs), nothing else.  Counts beyond one signed / unsigned byte in every intermediate a counting shortcut might use."""
    import hypergraphx as hgx

    L = rng.choice([130, 200, 260, 300])
    ctx.event(f"book-graph:{L}-pages")
    base = rng.choice([0, 1000])
    a, b = base, base + 1
    pages = [base + 10 + 3 * i for i in range(L)]
    es = [(a, b)] + [(a, p) for p in pages] + [(p, b) for p in pages] + [(b, pages[0], a)]
    rng.shuffle(es)
    h = hgx.Hypergraph(es)
    exp = {canon([(1, 2), (1, 3), (2, 3)], 3): L - 1, canon([(1, 2), (1, 3), (2, 3), (1, 2, 3)], 3): 1, canon([(1, 2), (1, 3)], 3): L * (L - 1)}

    def wit(x=None):
        return {"book": {"pages": L, "hubs": [a, b]}, "extra": repr(x)[:600]}

    r = call(lib_census, h, 3)
    if isinstance(r, _Raised):
        ctx.check("C11:census", False, f"C11:compute_motifs(order=3):raised:{type(r.e).__name__}:book", lambda: wit(r))
        return
    got = {}
    for p_, c_ in r:
        if c_:
            k_ = canon(p_, 3)
            got[k_] = got.get(k_, 0) + c_
    ctx.check("C11:census", len(r) == 6 and got == exp, "C11:order3:census-differs-from-closed-form:book", lambda: wit({"got": sorted(got.items()), "expected": sorted(exp.items())}))
    ctx.distinct_add(("book", L, base))


def run_case(ctx, rng, idx):
    nr = N_RANDOM[ctx.tier]
    if idx >= nr:
        return pattern_case(ctx, rng, idx - nr)
    if idx in (2, 12) or (ctx.tier == "thorough" and idx % 500 == 22):
        return book_case(ctx, rng, idx)
    m = idx % 10
    if m <= 6:
        undirected_case(ctx, rng, idx, 3 if m <= 4 else 4)
    else:
        directed_case(ctx, rng, idx, 3 if rng.random() < 0.6 else 4)


def judge_census(ctx, h, edge_sets, N, wit, tag=""):
    r = call(lib_census, h, N)
    if isinstance(r, _Raised):
        ctx.check("C11:census", False, f"C11:compute_motifs(order={N}):raised:{type(r.e).__name__}", lambda: wit(r))
        return None
    n_classes = {3: 6, 4: 171}[N]
    cl = [canon(p, N) for p, c in r]
    ctx.check("C11:census", len(r) == n_classes and len(set(cl)) == n_classes, f"C11:order{N}:classes-not-reported-exactly-once", lambda: wit((len(r), len(set(cl)))))
    got = {}
    for (p, c), k in zip(r, cl):
        got[k] = got.get(k, 0) + c
    exp = brute_census(edge_sets, N)
    nz = {k: v for k, v in got.items() if v}
    ctx.check("C11:census", nz == exp, f"C11:order{N}:census-differs-from-enumeration{tag}", lambda: wit({"got": sorted(nz.items()), "expected": sorted(exp.items())}))
    return nz


def undirected_case(ctx, rng, idx, N):
    import hypergraphx as hgx

    n = rng.randint(3, 9 if N == 3 else 8)
    big = N == 3 and (idx in (0, 1) or (ctx.tier == "thorough" and idx % 300 == 10))
    if big:
        n = rng.randint(18, 30)
        ctx.event("big-hypergraph")
    nodes = list(range(n))
    edge_sets = set()
    for _ in range(rng.randint(1, 14) if not big else rng.randint(40, 90)):
        s = min(rng.choice([1, 2, 2, 2, 3, 3, 4, 4, 5, 6]), n)
        edge_sets.add(frozenset(rng.sample(nodes, s)))
    el = [tuple(sorted(e)) for e in sorted(edge_sets, key=sorted)]
    if rng.random() < 0.3:  # a weighted hypergraph (weights 0 included): the census is about which hyperedges exist
        h = hgx.Hypergraph(el, weighted=True, weights=[rng.choice([0, 0.5, 1, 3]) for _ in el])
    else:
        h = hgx.Hypergraph(el)

    def wit(extra=None):
        return {"order": N, "edges": sorted(map(sorted, edge_sets)), "extra": repr(extra)[:900]}

    base = judge_census(ctx, h, edge_sets, N, wit)
    if base is None:
        return
    # metamorphic: relabel by a permutation onto non-contiguous labels + shuffled insertion order
    img = rng.sample(range(0, 90, 1), n)
    if n <= len(HOSTILE_LABELS) and idx % 3 == 1:
        # integer labels of other value classes: negative (hash(-1) == hash(-2) in CPython), at and beyond 2**32 / 2**61 / 2**63,
        # next to the small ones they could be confused with by a packed or hashed key
        img = [-1, -2] + rng.sample([x for x in HOSTILE_LABELS if x not in (-1, -2)], n - 2)  # the two colliding labels always together
        rng.shuffle(img)
        ctx.event("hostile-integer-labels")
    pm = dict(zip(nodes, img))
    rel = [tuple(pm[v] for v in e) for e in edge_sets]
    rng.shuffle(rel)
    rel = [tuple(rng.sample(e, len(e))) for e in rel]
    h2 = hgx.Hypergraph()
    for e in rel:
        h2.add_edge(e)
    r2 = call(lib_census, h2, N)
    if isinstance(r2, _Raised):
        ctx.check("C11:relabel-invariance", False, f"C11:compute_motifs(order={N}):raised-after-relabel:{type(r2.e).__name__}", lambda: wit((pm, r2)))
    else:
        got2 = {}
        for p, c in r2:
            if c:
                k = canon(p, N)
                got2[k] = got2.get(k, 0) + c
        ctx.check("C11:relabel-invariance", got2 == base, f"C11:order{N}:census-changed-under-relabelling-or-insertion-order", lambda: wit({"perm": pm, "got": sorted(got2.items()), "base": sorted(base.items())}))
    if not big and idx % 4 == 0:
        # the OBSERVED census does not depend on how many configuration-model rounds are requested next to it
        # (runs_config_model > 0 is the default route; the null-model columns themselves are not part of the property)
        from hypergraphx.motifs import compute_motifs

        runs = rng.choice([1, 2])
        np.random.seed(rng.randrange(2**31))
        r3 = call(lambda: quiet(compute_motifs, h, order=N, runs_config_model=runs))
        if isinstance(r3, _Raised):
            ctx.check("C11:census", False, f"C11:compute_motifs(order={N},runs_config_model>0):raised:{type(r3.e).__name__}", lambda: wit(r3))
        else:
            got3 = {}
            ok3 = True
            for p, c in r3["observed"]:
                if not isinstance(c, (int, np.integer)):
                    ok3 = False
                elif c:
                    k = canon(p, N)
                    got3[k] = got3.get(k, 0) + c
            ctx.check("C11:census", ok3 and got3 == base, f"C11:order{N}:observed-census-differs-when-null-model-rounds-are-requested", lambda: wit({"runs": runs, "observed": r3["observed"][:8]}))
    if sum(base.values()) >= 2:
        ctx.distinct_add((N, tuple(sorted(map(lambda e: tuple(sorted(e)), edge_sets)))))
    # the same Hypergraph object after an in-place edit that keeps the numbers of nodes and hyperedges
    from ..mutate import same_count_edit

    if same_count_edit(rng, h):
        ctx.event("re-evaluated-after-in-place-edit")
        es2 = {frozenset(e) for e in h.get_edges()}
        judge_census(ctx, h, es2, N, lambda extra=None: {"order": N, "edges after in-place edit": sorted(map(sorted, es2)), "extra": repr(extra)[:900]}, tag=":after-in-place-edit")
    if sum(base.values()) >= 2:
        ctx.distinct_add((N, tuple(sorted(map(lambda e: tuple(sorted(e)), edge_sets)))))
    if idx % 40 < 2:
        ctx.sample(wit({"census": sorted(base.items())}))


def pattern_case(ctx, rng, j):
    import hypergraphx as hgx

    global PAT3, PAT4
    if PAT3 is None:
        PAT3, PAT4 = all_patterns(3), all_patterns(4)
        assert len(PAT3) == 12 and len(PAT4) == 1990, (len(PAT3), len(PAT4))
    N, pat = (3, PAT3[j]) if j < 12 else (4, PAT4[j - 12])
    edge_sets = {frozenset(e) for e in pat}
    h = hgx.Hypergraph([tuple(e) for e in pat])

    def wit(extra=None):
        return {"order": N, "single-motif input": pat, "extra": repr(extra)[:600]}

    nz = judge_census(ctx, h, edge_sets, N, wit, tag=":single-pattern")
    if nz is not None:
        c = canon([tuple(v + 1 for v in e) for e in pat], N)
        ctx.check("C11:census", nz == {c: 1}, f"C11:order{N}:single-pattern-not-counted-once-in-its-class", lambda: wit(nz))
        ctx.event(f"pattern-order{N}")
        ctx.set_add(f"classes-order{N}", c)
        ctx.distinct_add((N, "pattern", j))


def directed_case(ctx, rng, idx, N):
    import hypergraphx as hgx
    from hypergraphx.motifs.directed_motifs import compute_directed_motifs

    n = rng.randint(3, 7)
    nodes = list(range(n))
    edges = set()
    for _ in range(rng.randint(1, 10)):
        s = min(rng.choice([2, 2, 3, 3, 4, 5]), n)
        ns = rng.sample(nodes, s)
        cut = rng.randint(1, s - 1)
        edges.add((tuple(sorted(ns[:cut])), tuple(sorted(ns[cut:]))))
    if rng.random() < 0.5:
        # several DIFFERENT hyperedges over the same node set (other split, reversed direction): one node set, one visit
        for s_, t_ in rng.sample(sorted(edges), min(len(edges), 2)):
            ns = list(s_) + list(t_)
            if 2 <= len(ns) <= N:
                rng.shuffle(ns)
                cut = rng.randint(1, len(ns) - 1)
                edges.add((tuple(sorted(ns[:cut])), tuple(sorted(ns[cut:]))))
                if rng.random() < 0.5:
                    edges.add((t_, s_))
    edges = sorted(edges)

    def census(es):
        h = hgx.DirectedHypergraph(es)
        return quiet(compute_directed_motifs, h, order=N, runs_config_model=0)["observed"]

    def wit(extra=None):
        return {"order": N, "directed edges": edges, "extra": repr(extra)[:900]}

    base = call(census, edges)
    if isinstance(base, _Raised):
        ctx.check("C11:directed", False, f"C11:compute_directed_motifs(order={N}):raised:{type(base.e).__name__}", lambda: wit(base))
        return
    # every reported pattern is the lexicographic minimum of its own orbit, reported once
    pats = [p for p, c in base]
    ctx.check("C11:directed", len(set(pats)) == len(pats), "C11:directed:class-reported-twice", lambda: wit(base))
    for p, c in base:
        orbit = []
        for perm in itertools.permutations(range(1, N + 1)):
            m = dict(zip(range(1, N + 1), perm))
            orbit.append(tuple(sorted((tuple(sorted(m[v] for v in a)), tuple(sorted(m[v] for v in b))) for a, b in p)))
        ctx.check("C11:directed", tuple(p) == min(orbit) and c >= 1, "C11:directed:pattern-not-canonical-representative", lambda: wit((p, min(orbit))))
    # relabelling invariance
    img = rng.sample(range(0, 50), n)
    pm = dict(zip(nodes, img))
    rel = [(tuple(pm[v] for v in a), tuple(pm[v] for v in b)) for a, b in edges]
    rng.shuffle(rel)
    r2 = call(census, rel)
    ctx.check("C11:directed", not isinstance(r2, _Raised) and dict(r2) == dict(base), "C11:directed:census-changed-under-relabelling", lambda: wit((pm, r2, base)))
    # the same hyperedges inserted in reversed order (same labels)
    r2b = call(census, list(reversed(edges)))
    ctx.check("C11:directed", not isinstance(r2b, _Raised) and dict(r2b) == dict(base), "C11:directed:census-changed-under-insertion-order", lambda: wit((r2b, base)))
    if idx % 4 == 1:
        runs = rng.choice([1, 2])
        np.random.seed(rng.randrange(2**31))
        r2c = call(lambda: quiet(compute_directed_motifs, hgx.DirectedHypergraph(edges), order=N, runs_config_model=runs))
        ctx.check("C11:directed", not isinstance(r2c, _Raised) and dict(r2c["observed"]) == dict(base) and all(isinstance(c, (int, np.integer)) for _, c in r2c["observed"]),
                  "C11:directed:observed-census-differs-when-null-model-rounds-are-requested", lambda: wit((runs, r2c if isinstance(r2c, _Raised) else r2c["observed"][:8])))
    # hyperedges larger than the order are ignored
    if n > N:
        big = rng.sample(nodes, N + 1)
        extra = (tuple(sorted(big[:1])), tuple(sorted(big[1:])))
        if extra not in edges:
            r3 = call(census, edges + [extra])
            ctx.check("C11:directed", not isinstance(r3, _Raised) and dict(r3) == dict(base), "C11:directed:larger-hyperedge-changed-census", lambda: wit((extra, r3, base)))
    if sum(c for _, c in base) >= 2:
        ctx.distinct_add(("D", N, tuple(edges)))
    if idx % 40 < 2:
        ctx.sample(wit({"census": base}))
