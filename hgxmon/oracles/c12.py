"""C12: directed measures (in/out degree, hyperedge signature, exact/strong/weak reciprocity)
recomputed from their definitions on the public observation."""
import numpy as np

from .. import history
from ..battery import call, _Raised
from ..observe import observe

N_RANDOM = {"quick": 1000, "thorough": 100000}
N_EXH = 2 ** 12 - 1  # every non-empty directed hypergraph on 3 fixed nodes (12 possible hyperedges), thorough tier only
TIERS = {"quick": N_RANDOM["quick"], "thorough": N_RANDOM["thorough"] + N_EXH}
EXHAUSTIVE = {"quick": False, "thorough": True}
WATCHDOG_S = {"quick": 900, "thorough": 7200}
RULE = ("one case = one generated DirectedHypergraph (2-8 nodes from any label universe, 1-14 hyperedges of total size 2-6 "
        "with disjoint non-empty sides, reversed and partially reversed pairs forced) x every bound 2..8 (also below the "
        "largest hyperedge) x every node x every order/size filter. non-trivial = >=2 hyperedges and at least one reversed "
        "or partially reversed pair; distinct = by abstract state. The thorough tier additionally enumerates EVERY non-empty "
        "directed hypergraph on the 3 nodes {'a', 'b', 'E1'} (12 possible hyperedges, 4095 hypergraphs; exhaustive for that sub-space)")
DECIDING = ["C12:degree", "C12:signature", "C12:reciprocity"]
ASSUMPTIONS = ["reciprocities are defined on the hyperedges whose total size is within the bound (the anchor's and the code's reading)"]


def gen(rng):
    import hypergraphx as hgx

    uni = rng.choice(list(history.UNIVERSES))
    labels = list(history.UNIVERSES[uni])
    rng.shuffle(labels)
    labels = labels[: rng.randint(2, 8)]
    h = hgx.DirectedHypergraph(weighted=rng.random() < 0.2)
    edges = []
    for _ in range(rng.randint(1, 14)):
        r = rng.random()
        if edges and r < 0.3:  # exact reverse
            s, t = rng.choice(edges)
            e = (t, s)
        elif edges and r < 0.55:  # partial reverse: some targets -> some sources
            s, t = rng.choice(edges)
            ns = rng.sample(list(t), rng.randint(1, len(t)))
            nt = rng.sample(list(s), rng.randint(1, len(s)))
            e = (tuple(ns), tuple(nt))
        else:
            k = min(rng.choice([2, 2, 3, 3, 4, 5, 6]), len(labels))
            ns = rng.sample(labels, k)
            cut = rng.randint(1, k - 1)
            e = (tuple(ns[:cut]), tuple(ns[cut:]))
        edges.append(e)
        h.add_edge(e, weight=rng.choice([2, 0, 0.0, 1, 2.5]) if h.is_weighted() else None)  # (a hyperedge of weight 0 is present)
    for n in labels:
        if rng.random() < 0.3:
            h.add_node(n)
    if rng.random() < 0.35:  # calls the library refuses, made before measuring (a refused call must leave no trace)
        from ..mutate import refused_calls

        refused_calls(rng, h, directed=True)
    return h


def run_case(ctx, rng, idx):
    from hypergraphx.measures import directed as dm

    if idx >= N_RANDOM[ctx.tier]:
        import itertools
        import hypergraphx as hgx

        mask = idx - N_RANDOM[ctx.tier] + 1
        nodes = ["a", "b", "E1"]
        poss = []
        for r in range(1, 3):
            for s_ in itertools.combinations(nodes, r):
                rest = [x for x in nodes if x not in s_]
                for q in range(1, len(rest) + 1):
                    for t_ in itertools.combinations(rest, q):
                        poss.append((s_, t_))
        assert len(poss) == 12
        h = hgx.DirectedHypergraph([e for i, e in enumerate(poss) if mask >> i & 1])
        ctx.event("exhaustive-3-node-directed-hypergraph")
        evaluate(ctx, rng, idx, h)
        return
    if idx == 2 or (ctx.tier == "thorough" and idx % 5000 == 11):
        many_same_shape_case(ctx, rng, idx)
        return
    if idx == 3 or (ctx.tier == "thorough" and idx % 5000 == 13):
        hub_case(ctx, rng, idx)
        return
    if idx == 1 or (ctx.tier == "thorough" and idx % 700 == 9):
        from ..gen import big_directed

        ctx.event("big-directed-hypergraph")
        evaluate(ctx, rng, idx, big_directed(rng))
        return
    h = gen(rng)
    evaluate(ctx, rng, idx, h)
    from ..mutate import same_count_edit

    warm(h, 5)
    if same_count_edit(rng, h, directed=True):  # same object and counts, other shapes: stale memos show here
        ctx.event("re-evaluated-after-in-place-edit")
        evaluate(ctx, rng, idx, h, first_bound=5)  # (the first question after the edit is the last one asked before it)
    from ..mutate import degree_preserving_swap

    warm(h, 4)
    if rng.random() < 0.5 and degree_preserving_swap(rng, h, directed=True):
        ctx.event("re-evaluated-after-a-degree-preserving-double-swap")
        evaluate(ctx, rng, idx, h, first_bound=4)
    c = h.copy()
    if same_count_edit(rng, c, directed=True):
        evaluate(ctx, rng, idx, c)
    if rng.random() < 0.3:  # the same hypergraph reached through other calls (copy of a copy / clear() and re-insertion)
        from ..mutate import second_order

        lab, g2 = second_order(rng, h, directed=True)
        ctx.event("re-evaluated-on-" + lab)
        evaluate(ctx, rng, idx, g2)


def warm(h, m):
    """every measure asked once with bound m right before an in-place edit: a one-slot memo then holds exactly the question
    that is asked first after the edit"""
    from hypergraphx.measures import directed as dm

    for fn in (dm.exact_reciprocity, dm.strong_reciprocity, dm.weak_reciprocity, dm.hyperedge_signature_vector):
        call(fn, h, m)
    for fn in (dm.in_degree_sequence, dm.out_degree_sequence):
        call(fn, h)


def many_same_shape_case(ctx, rng, idx):
    """More hyperedges of ONE shape than a 16-bit counter holds (all 89 700 ordered pairs on 300 nodes, plus a few larger
    hyperedges): the signature cells are counts, whatever their size.  Only the signature and the unfiltered degree
    sequences are judged here (references are closed forms)."""
    import hypergraphx as hgx
    from hypergraphx.measures import directed as dm

    n = 300
    ctx.event("89700-hyperedges-of-one-shape")
    h = hgx.DirectedHypergraph()
    for i in range(n):
        for j in range(n):
            if i != j:
                h.add_edge(((i,), (j,)))
    extra = [((0, 1), (2,)), ((3,), (4, 5)), ((6, 7), (8, 9)), ((10,), (11, 12, 13))]
    for e in extra:
        h.add_edge(e)

    def wit(x=None):
        return {"n": n, "pairs": n * (n - 1), "extra": extra, "got": repr(x)[:300]}

    for m in (2, 3, 4, None):
        r = call(dm.hyperedge_signature_vector, h, m) if m is not None else call(dm.hyperedge_signature_vector, h)
        mm = 4 if m is None else m
        if isinstance(r, _Raised):
            ctx.check("C12:signature", False, f"C12:signature:raised:{type(r.e).__name__}", lambda: wit(r))
            continue
        ref = np.zeros((mm - 1) * (mm - 1))
        ref[0] = n * (n - 1)
        for s_, t_ in extra:
            if len(s_) + len(t_) <= mm:
                ref[(len(s_) - 1) * (mm - 1) + (len(t_) - 1)] += 1
        ctx.check("C12:signature", np.shape(r) == ref.shape and np.array_equal(np.asarray(r, dtype=float), ref), "C12:signature:cells", lambda: wit((m, np.asarray(r).tolist()[:9])))
        ctx.check("C12:signature", float(np.sum(np.asarray(r, dtype=float))) == float(ref.sum()), "C12:signature:sum", lambda: wit(m))
    gi, go = call(dm.in_degree_sequence, h), call(dm.out_degree_sequence, h)
    ind = {v: n - 1 for v in range(n)}
    outd = {v: n - 1 for v in range(n)}
    for s_, t_ in extra:
        for v in s_:
            ind[v] += 1
        for v in t_:
            outd[v] += 1
    ctx.check("C12:degree", gi == ind, "C12:in_degree_sequence", lambda: wit("in"))
    ctx.check("C12:degree", go == outd, "C12:out_degree_sequence", lambda: wit("out"))
    r = call(dm.exact_reciprocity, h, 2)
    ctx.check("C12:reciprocity", not isinstance(r, _Raised) and r.get(2) == 1.0, "C12:exact_reciprocity:value", lambda: wit(r))
    ctx.distinct_add(("many-same-shape", n))


def hub_case(ctx, rng, idx):
    """One node is a source of ~300 and a target of ~300 hyperedges whose sizes (2, 3, 4) are interleaved in insertion order;
    a few dozen of them are handed to add_edge a second time (a no-op for an unweighted hypergraph).  Degrees with and
    without filters against counts over the input list."""
    import hypergraphx as hgx
    from hypergraphx.measures import directed as dm

    ctx.event("hub-in-600-hyperedges")
    hub, leaves = 0, list(range(1, 400))
    edges = []
    for i in range(300):
        k = 1 + i % 3
        others = rng.sample(leaves, k)
        edges.append(((hub,), tuple(sorted(others))) if k == 1 or i % 2 else ((hub, others[0]), tuple(sorted(others[1:]))))
        others = rng.sample(leaves, k)
        edges.append((tuple(sorted(others)), (hub,)))
    edges = list(dict.fromkeys(edges))
    h = hgx.DirectedHypergraph()
    for e in edges:
        h.add_edge(e)
    for e in rng.sample(edges, 40):  # inserted again: nothing changes
        h.add_edge(e)
    listed = set(map(tuple, h.get_edges()))
    ctx.check("C12:degree", listed == set(edges) and len(h.get_edges()) == len(edges), "C12:hub:listing-differs-from-the-inserted-hyperedges", {"listed": len(listed), "inserted": len(edges)})
    present = sorted({n for e in edges for side in e for n in side} - {hub})  # (queries about an absent node may raise: only members are probed)
    probe = [hub] + rng.sample(present, 5)
    for kw in ({}, {"size": 2}, {"size": 3}, {"size": 4}, {"order": 1}, {"order": 2}, {"size": 5}):
        size = kw.get("size", kw.get("order", -2) + 1 if "order" in kw else None)
        sel = [e for e in edges if size is None or len(e[0]) + len(e[1]) == size]
        for n in probe:
            ei, eo = sum(1 for e in sel if n in e[0]), sum(1 for e in sel if n in e[1])
            gi, go = call(dm.in_degree, h, n, **kw), call(dm.out_degree, h, n, **kw)
            ctx.check("C12:degree", gi == ei, "C12:in_degree", lambda: {"hub-case": True, "node": n, "filter": kw, "got": repr(gi), "expected": ei})
            ctx.check("C12:degree", go == eo, "C12:out_degree", lambda: {"hub-case": True, "node": n, "filter": kw, "got": repr(go), "expected": eo})
        gs = call(dm.in_degree_sequence, h, **kw)
        ctx.check("C12:degree", not isinstance(gs, _Raised) and gs.get(hub) == sum(1 for e in sel if hub in e[0]), "C12:in_degree_sequence", lambda: {"hub-case": True, "filter": kw})
    ctx.distinct_add(("hub", len(edges)))


def evaluate(ctx, rng, idx, h, first_bound=None):
    from hypergraphx.measures import directed as dm

    P = []
    try:
        S = observe(h, P)
    except Exception as e:  # listings that disagree with each other (e.g. after a refused call left a trace)
        ctx.check("C12:degree", False, f"C12:object-views-inconsistent:{type(e).__name__}", {"error": repr(e)[:300]})
        return
    if P:
        ctx.check("C12:degree", False, "C12:object-views-inconsistent:" + P[0], {"problems": P[:5]})
        return
    E = list(S.edges)
    sizes = [len(s) + len(t) for s, t in E]
    mx = max(sizes)

    def wit(extra=None):
        return {"object": S.describe() if len(S.edges) <= 30 else {"nodes": len(S.nodes), "edges": len(S.edges)}, "extra": repr(extra)[:700]}

    # ---- degrees ---------------------------------------------------------------------------
    filters = [None] + [("size", k) for k in range(1, mx + 2)] + [("order", k - 1) for k in range(1, mx + 2)]
    for f in filters:
        kw = {} if f is None else {f[0]: f[1]}
        size = None if f is None else (f[1] if f[0] == "size" else f[1] + 1)
        sel = [e for e in E if size is None or len(e[0]) + len(e[1]) == size]
        ind = {n: sum(1 for e in sel if n in e[0]) for n in S.nodes}
        outd = {n: sum(1 for e in sel if n in e[1]) for n in S.nodes}
        for n in S.nodes:
            ctx.check("C12:degree", call(dm.in_degree, h, n, **kw) == ind[n], "C12:in_degree", lambda: wit((n, kw)))
            ctx.check("C12:degree", call(dm.out_degree, h, n, **kw) == outd[n], "C12:out_degree", lambda: wit((n, kw)))
        gi, go = call(dm.in_degree_sequence, h, **kw), call(dm.out_degree_sequence, h, **kw)
        if f is not None and rng.random() < 0.3:
            # the same filter handed over positionally, in the documented parameter order (hypergraph[, node], order, size)
            pos = (f[1], None) if f[0] == "order" else (None, f[1])
            n0 = rng.choice(list(S.nodes))
            ctx.check("C12:degree", call(dm.in_degree, h, n0, *pos) == ind[n0], "C12:in_degree(positional-filter)", lambda: wit((n0, pos)))
            ctx.check("C12:degree", call(dm.out_degree, h, n0, *pos) == outd[n0], "C12:out_degree(positional-filter)", lambda: wit((n0, pos)))
            ctx.check("C12:degree", call(dm.in_degree_sequence, h, *pos) == ind, "C12:in_degree_sequence(positional-filter)", lambda: wit(pos))
            ctx.check("C12:degree", call(dm.out_degree_sequence, h, *pos) == outd, "C12:out_degree_sequence(positional-filter)", lambda: wit(pos))
        ctx.check("C12:degree", gi == ind and isinstance(gi, dict) and len(gi) == len(S.nodes), "C12:in_degree_sequence", lambda: wit((kw, gi, ind)))
        ctx.check("C12:degree", go == outd and isinstance(go, dict) and len(go) == len(S.nodes), "C12:out_degree_sequence", lambda: wit((kw, go, outd)))
    # ---- signature -------------------------------------------------------------------------
    for m in [None] + list(range(2, 9)) + [np.int64(rng.randint(2, 8)), rng.choice([65, 66, 90, 130, 257, 300])]:  # the bound also as a NumPy integer (sizes usually come from arrays)
        r = call(dm.hyperedge_signature_vector, h, m) if m is not None else call(dm.hyperedge_signature_vector, h)
        mm = mx if m is None else int(m)
        if isinstance(r, _Raised):
            ctx.check("C12:signature", False, f"C12:signature:raised:{type(r.e).__name__}", lambda: wit((m, r)))
            continue
        ref = np.zeros((mm - 1) * (mm - 1))
        for s, t in E:
            if len(s) + len(t) <= mm:
                ref[(len(s) - 1) * (mm - 1) + (len(t) - 1)] += 1
        ok = np.shape(r) == ref.shape and np.array_equal(r, ref)
        ctx.check("C12:signature", ok, "C12:signature:cells", lambda: wit((m, np.asarray(r).tolist(), ref.tolist())))
        ctx.check("C12:signature", float(np.sum(r)) == sum(1 for z in sizes if z <= mm), "C12:signature:sum", lambda: wit(m))
    # ---- reciprocity -----------------------------------------------------------------------
    partial = False
    for m in ([first_bound] if first_bound else []) + [m_ for m_ in range(2, 9) if m_ != first_bound]:
        Eb = [e for e in E if 2 <= len(e[0]) + len(e[1]) <= m]
        Eset = set(Eb)
        reach = {}
        pairs = set()
        for s, t in Eb:
            for a in s:
                reach.setdefault(a, set()).update(t)
                for b in t:
                    pairs.add((a, b))
        ex = {k: 0 for k in range(2, m + 1)}
        st = dict(ex)
        wk = dict(ex)
        tot = dict(ex)
        for s, t in Eb:
            z = len(s) + len(t)
            tot[z] += 1
            if (t, s) in Eset:
                ex[z] += 1
            cov = set().union(*[reach.get(b, set()) for b in t])
            if s <= cov:
                st[z] += 1
            if any((b, a) in pairs for a in s for b in t):
                wk[z] += 1
                partial = True
        ref = {}
        for name, d in (("exact", ex), ("strong", st), ("weak", wk)):
            ref[name] = {k: (d[k] / tot[k] if tot[k] else 0) for k in d}
        got = {}
        for name, fn in (("exact", dm.exact_reciprocity), ("strong", dm.strong_reciprocity), ("weak", dm.weak_reciprocity)):
            r = call(fn, h, m)
            if isinstance(r, _Raised):
                ctx.check("C12:reciprocity", False, f"C12:{name}_reciprocity:raised:{type(r.e).__name__}", lambda: wit((m, r)))
                continue
            got[name] = r
            ctx.check("C12:reciprocity", r == ref[name], f"C12:{name}_reciprocity:value", lambda: wit((m, r, ref[name])))
            ctx.check("C12:reciprocity", isinstance(r, dict) and all(0 <= v <= 1 for v in r.values()), f"C12:{name}_reciprocity:outside[0,1]", lambda: wit((m, r)))
            ctx.check("C12:reciprocity", all(r[k] == 0 for k in r if tot.get(k, 0) == 0), f"C12:{name}_reciprocity:empty-size-nonzero", lambda: wit((m, r)))
        if len(got) == 3:
            ok = all(got["exact"][k] <= got["strong"][k] <= got["weak"][k] for k in got["exact"])
            ctx.check("C12:reciprocity", ok, "C12:reciprocity:exact<=strong<=weak-broken", lambda: wit((m, got)))
    S2 = observe(h)
    ctx.check("C12:degree", S2.same(S, with_hgmd=True), "C12:measure-mutated-argument", wit)
    if len(E) >= 2 and partial:
        ctx.distinct_add(S.freeze())
    if idx % 100 < 2:
        ctx.sample({"object": S.describe()})
