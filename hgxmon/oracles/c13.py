"""C13: configuration models preserve degrees and sizes.

Two monitors: (1) chain invariant at a hook — sys.monitoring observes the MCMC state after
every step (diagnostic, localises a fault to a step); (2) output postcondition — exactly
the statement — which decides."""
import contextlib
import inspect
import io
import random as pyrandom
from collections import Counter

import numpy as np

from .. import history, probes
from ..battery import call, _Raised
from ..observe import npize, observe

TIERS = {"quick": 800, "thorough": 60000}
WATCHDOG_S = {"quick": 900, "thorough": 7200}
RULE = ("one case = one input (3 of 4 a Hypergraph with 2-12 hyperedges of sizes 1-5 over int/str/gap labels, else a "
        "DirectedHypergraph with 2-10 hyperedges) x one parameter draw (n_steps in {0,1,5,50,400}, label edge|stub, detailed "
        "T|F, optional size/order among sizes present) x 2 seeds of numpy.random / random. non-trivial = the chain was "
        "observed to visit >=2 distinct states; distinct = by (input, parameters)")
DECIDING = ["C13:output", "C13:chain-step-observed"]
ASSUMPTIONS = ["numpy.random / random global state is seeded by the harness immediately before each call"]


def quiet(fn, *a, **k):
    with contextlib.redirect_stdout(io.StringIO()):
        return fn(*a, **k)


def degs(edges, by_size=True):
    """degree = number of hyperedges containing the node (a node listed twice in one hyperedge counts once,
    as in the library's own degree queries)"""
    d = Counter()
    for e in edges:
        for n in set(e):
            d[(n, len(e)) if by_size else n] += 1
    return d


def gen_h(rng):
    import hypergraphx as hgx

    uni = rng.choice(["small", "gaps", "str", "bigneg", "small"])
    labels = list(history.UNIVERSES[uni])
    rng.shuffle(labels)
    labels = labels[: rng.randint(3, 8)]
    edges = set()
    uniform = rng.random() < 0.3
    us = rng.randint(2, 3)
    for _ in range(rng.randint(2, 12) * 2):
        s = min(us if uniform else rng.choice([1, 2, 2, 3, 3, 4, 5]), len(labels))
        edges.add(tuple(sorted(rng.sample(labels, s))))
        if len(edges) >= 12:
            break
    edges = sorted(edges)
    if len(edges) < 2:
        edges = [tuple(sorted(labels[:2])), tuple(sorted(labels[1:3]))]
    if rng.random() < 0.3:  # weighted input: the weights are not multiplicities, the guarantees are about the hyperedges
        h = hgx.Hypergraph(edges, weighted=True, weights=[rng.choice([1, 2, 3, 5, 0.5]) for _ in edges])
    else:
        h = hgx.Hypergraph(edges)
    if rng.random() < 0.3:
        h.add_node(labels[-1])
    if rng.random() < 0.35:  # calls the library refuses, made before measuring (a refused call must leave no trace)
        from ..mutate import refused_calls

        refused_calls(rng, h)
    return h, edges


def run_case(ctx, rng, idx):
    if idx % 4 == 3:
        return directed_case(ctx, rng, idx)
    from hypergraphx.generation import configuration_model as cm

    if idx == 2 or (ctx.tier == "thorough" and idx % 700 == 10):
        import hypergraphx as hgx

        ctx.event("large-hyperedges")
        nodes = list(range(0, 450, 3))
        es = set()
        for size, cnt in ((rng.randint(17, 30), rng.randint(4, 7)), (3, 6), (2, 4)):
            while sum(1 for e in es if len(e) == size) < cnt:
                es.add(tuple(sorted(rng.sample(nodes, size))))
        hb = hgx.Hypergraph(sorted(es))
        # the scale case is run over a fixed grid of parameters, so that what it reaches does not depend on one draw
        for force in ((50, "edge", True), (50, "stub", True), (50, "edge", False), (400, "stub", False)):
            undirected(ctx, rng, idx, hb, [tuple(e) for e in hb.get_edges()], phase=1, force=force)
        return
    if idx == 4 or (ctx.tier == "thorough" and idx % 700 == 12):
        # hyperedges of (almost) pairwise different sizes: two hyperedges drawn at random rarely have the same size, so
        # the size-respecting proposal has to search for its pair
        import hypergraphx as hgx

        ctx.event("pairwise-different-sizes")
        nodes = list(range(0, 300, 3))
        es = [tuple(sorted(rng.sample(nodes, sz))) for sz in range(2, 42)]
        hb = hgx.Hypergraph(es)
        for force in ((50, "edge", True), (200, "stub", True), (200, "edge", True)):
            undirected(ctx, rng, idx, hb, [tuple(e) for e in hb.get_edges()], phase=1, force=force)
        return
    if idx == 6 or (ctx.tier == "thorough" and idx % 30000 == 21):
        import hypergraphx as hgx

        ctx.event("300-pairwise-different-sizes")
        nodes = list(range(0, 1200, 2))
        hb = hgx.Hypergraph([tuple(sorted(rng.sample(nodes, sz))) for sz in range(2, 302)])
        undirected(ctx, rng, idx, hb, [tuple(e) for e in hb.get_edges()], phase=1, force=(150, "stub", True))
        return
    if ctx.tier == "thorough" and idx % 30000 == 22:
        import hypergraphx as hgx

        ctx.event("two-10500-node-hyperedges")
        hb = hgx.Hypergraph([tuple(range(0, 10500)), tuple(range(20000, 30500)), (1, 20001), (2, 3, 20002)])
        undirected(ctx, rng, idx, hb, [tuple(e) for e in hb.get_edges()], phase=1, force=(3, "stub", True))
        undirected(ctx, rng, idx, hb, [tuple(e) for e in hb.get_edges()], phase=1, force=(3, "edge", False))
        return
    if idx == 1 or (ctx.tier == "thorough" and idx % 700 == 9):
        from ..gen import big_hypergraph

        ctx.event("big-hypergraph")
        hb = big_hypergraph(rng, sizes=(2, 2, 3, 3, 4, 5), n=rng.randint(40, 80), m=rng.randint(150, 300))
        undirected(ctx, rng, idx, hb, [tuple(e) for e in hb.get_edges()], phase=1)
        return
    h, edges = gen_h(rng)
    if rng.random() < 0.12:
        # an input with a past: a singleton whose node was removed with keep_edges=True (kept as the empty hyperedge, or dropped -
        # DESIGN 2.3); whatever the input lists now is what must come back, size by size
        spare = 10**6 + 3
        h.add_edge((spare,))
        h.remove_node(spare, keep_edges=True)
        edges = [tuple(e) for e in h.get_edges()]
        if () in edges:
            ctx.event("input-contains-the-empty-hyperedge")
    undirected(ctx, rng, idx, h, edges, phase=0)


def undirected(ctx, rng, idx, h, edges, phase, force=None):
    from hypergraphx.generation import configuration_model as cm

    S0 = observe(h)
    n_steps = rng.choice([0, 1, 5, 50, 400])
    label = rng.choice(["edge", "stub"])
    detailed = rng.random() < 0.6
    if force:
        n_steps, label, detailed = force
    sizes_present = sorted({len(e) for e in edges})
    sel = rng.choice([None, None, "size", "order"])
    k = rng.choice(sizes_present)
    if force:
        sel = None
    kw = dict(n_steps=npize(rng, n_steps), label=label, detailed=npize(rng, detailed))
    if sel == "size":
        kw["size"] = npize(rng, k)
    elif sel == "order":
        kw["order"] = npize(rng, k - 1)
    code = probes.find_code(cm._cm_MCMC, "mh_step")
    positional = rng.random() < 0.25
    for seed in (rng.randrange(2**31), rng.randrange(2**31)):
        chain = {"steps": 0, "states": set(), "bad": None}
        moving = [e for e in edges if sel is None or len(e) == k]
        init_sizes = Counter(len(e) for e in moving)
        init_deg = degs(moving, by_size=detailed)

        def on_step(frame, *a):
            c = frame.f_locals.get("c_new")
            if c is None:
                return
            chain["steps"] += 1
            st = tuple(sorted(tuple(sorted(x, key=repr)) for x in c))
            chain["states"].add(st)
            if chain["bad"] is None:
                if any(len(set(x)) != len(x) for x in c):
                    chain["bad"] = "repeated-node-in-hyperedge"
                elif Counter(len(x) for x in c) != init_sizes:
                    chain["bad"] = "size-multiset-changed"
                elif degs(c, by_size=detailed) != init_deg:
                    chain["bad"] = "degree-changed"

        def wit(extra=None):
            return {"edges": edges if len(edges) <= 40 else len(edges), "params": kw, "positional_call": positional, "numpy_seed": seed, "extra": repr(extra)[:900]}

        np.random.seed(seed)
        if positional:
            # the documented parameter order: (hypergraph, n_steps, label, order, size, n_clash, detailed)
            args = (h, n_steps, label, kw.get("order"), kw.get("size"), 1, detailed)
            run = lambda: quiet(cm.configuration_model, *args)
        else:
            run = lambda: quiet(cm.configuration_model, h, **kw)
        if code is not None:
            with probes.attached(code, "PY_RETURN", on_step):
                r = call(run)
        else:
            r = call(run)
        if code is not None and (n_steps == 0 or chain["steps"] == n_steps):
            ctx.tick("C13:chain-step-observed", chain["steps"])
        elif code is not None:
            ctx.note("probe-step-count-mismatch")
        ctx.event("chain-steps", chain["steps"])
        ctx.set_add("chain-states", (idx, seed, len(chain["states"])))
        for st in list(chain["states"])[:50]:
            ctx.set_add("distinct-chain-states", st)
        if chain["bad"]:
            ctx.note("diagnostic:chain-invariant:" + chain["bad"])
        if isinstance(r, _Raised):
            ctx.check("C13:output", False, f"C13:configuration_model:raised:{type(r.e).__name__}", lambda: wit(r))
            continue
        out = [tuple(e) for e in r.get_edges()]
        S1 = observe(h)
        ctx.check("C13:output", S1.same(S0, with_hgmd=True), "C13:configuration_model:mutated-input", wit)
        # ---- the statement ----------------------------------------------------------------
        din, dout = degs(edges, True), degs(out, True)
        tin, tout = degs(edges, False), degs(out, False)
        if detailed:
            worse = [x for x in dout if dout[x] > din.get(x, 0)]
        else:
            worse = [x for x in tout if tout[x] > tin.get(x, 0)]
        ctx.check("C13:output", not worse, "C13:degree-increased" + ("" if detailed else "(total)"),
                  lambda: wit({"out": out, "offending": worse[:5], "diag": chain["bad"]}))
        ctx.check("C13:output", all(len(set(e)) == len(e) for e in out), "C13:repeated-node-in-output-hyperedge", lambda: wit(out))
        if len(out) == len(edges):
            ok = (dout == din) if detailed else (tout == tin)
            ctx.check("C13:output", ok, "C13:edge-count-preserved-but-degrees-differ", lambda: wit({"out": out, "diag": chain["bad"]}))
            ctx.check("C13:output", Counter(map(len, out)) == Counter(map(len, edges)), "C13:edge-count-preserved-but-sizes-differ", lambda: wit(out))
        else:
            ctx.event("output-merged-coinciding-hyperedges")
            ctx.check("C13:output", len(out) < len(edges), "C13:more-hyperedges-than-input", lambda: wit(out))
        if sel is not None:
            others_in = {e for e in edges if len(e) != k}
            others_out = {e for e in out if len(e) != k}
            ctx.check("C13:output", others_in == others_out, "C13:size-argument:other-sizes-not-intact", lambda: wit(out))
        if n_steps == 0 and set(out) != set(moving if sel is not None else edges) | ({e for e in edges if len(e) != k} if sel is not None else set()):
            ctx.note("observation:n_steps=0 changed the hyperedges")  # degrees/sizes are what is claimed, checked above
        if len(chain["states"]) >= 2:
            ctx.distinct_add((tuple(edges), repr(sorted(kw.items()))))
    if idx % 100 < 2:
        ctx.sample({"edges": edges, "params": kw})
    # the same object again after an in-place edit that keeps the number of hyperedges but changes sizes
    # (a memo keyed on identity / counts only shows on this second evaluation)
    if phase == 0:
        from ..mutate import same_count_edit

        if same_count_edit(rng, h):
            ctx.event("re-evaluated-after-in-place-edit")
            undirected(ctx, rng, idx, h, [tuple(e) for e in h.get_edges()], phase=1)


def directed_case(ctx, rng, idx):
    import hypergraphx as hgx
    from hypergraphx.generation import directed_configuration_model as dcm

    uni = rng.choice(["small", "gaps", "str"])
    labels = list(history.UNIVERSES[uni])
    rng.shuffle(labels)
    labels = labels[: rng.randint(3, 8)]
    edges = set()
    for _ in range(30):
        s = min(rng.choice([2, 2, 3, 3, 4, 5]), len(labels))
        ns = rng.sample(labels, s)
        cut = rng.randint(1, s - 1)
        edges.add((tuple(sorted(ns[:cut])), tuple(sorted(ns[cut:]))))
        if len(edges) >= rng.randint(2, 10):
            break
    edges = sorted(edges)
    if len(edges) >= 2 and rng.random() < 0.5:  # several hyperedges with an identical source (or target) set
        s0, t0 = rng.choice(edges)
        for _ in range(rng.randint(1, 3)):
            rest = [x for x in labels if x not in s0]
            if rest:
                t = tuple(sorted(rng.sample(rest, rng.randint(1, min(3, len(rest))))))
                edges.append((s0, t) if rng.random() < 0.5 else (t, s0) if not set(t) & set(s0) else (s0, t))
        edges = sorted(set(edges))
    if len(edges) < 2:
        return
    if rng.random() < 0.3:
        h = hgx.DirectedHypergraph(edges, weighted=True, weights=[rng.choice([1, 2, 3, 5, 0.5]) for _ in edges])
    else:
        h = hgx.DirectedHypergraph(edges)
    if rng.random() < 0.35:  # calls the library refuses, made before measuring (a refused call must leave no trace)
        from ..mutate import refused_calls

        refused_calls(rng, h, directed=True)
    S0 = observe(h)
    fn = dcm.directed_configuration_model
    src, first = inspect.getsourcelines(fn)
    heads = {first + i for i, l in enumerate(src) if l.strip().startswith("for _ in range(")}
    ind0 = Counter(n for s, t in edges for n in s)
    outd0 = Counter(n for s, t in edges for n in t)
    shapes0 = Counter((len(s), len(t)) for s, t in edges)
    for seed in (rng.randrange(2**31), rng.randrange(2**31)):
        chain = {"steps": 0, "states": set(), "bad": None}

        def on_line(frame, line):
            if line not in heads:
                return
            c = frame.f_locals.get("new_hyperedges")
            if not c:
                return
            chain["steps"] += 1
            chain["states"].add(tuple((tuple(sorted(s, key=repr)), tuple(sorted(t, key=repr))) for s, t in c))
            if chain["bad"] is None:
                if Counter((len(s), len(t)) for s, t in c) != shapes0:
                    chain["bad"] = "shape-multiset-changed"
                elif Counter(n for s, t in c for n in s) != ind0 or Counter(n for s, t in c for n in t) != outd0:
                    chain["bad"] = "in-or-out-degree-changed"
                elif any(len(set(s)) != len(s) or len(set(t)) != len(t) for s, t in c):
                    chain["bad"] = "repeated-node-in-side"

        def wit(extra=None):
            return {"directed edges": edges, "random_seed": seed, "extra": repr(extra)[:900]}

        pyrandom.seed(seed)
        with probes.attached(fn.__code__, "LINE", on_line):
            r = call(fn, h)
        ctx.tick("C13:chain-step-observed", chain["steps"])
        ctx.event("directed-chain-steps", chain["steps"])
        for st in list(chain["states"])[:50]:
            ctx.set_add("distinct-chain-states", st)
        if chain["bad"]:
            ctx.note("diagnostic:directed-chain-invariant:" + chain["bad"])
        if isinstance(r, _Raised):
            ctx.check("C13:output", False, f"C13:directed_configuration_model:raised:{type(r.e).__name__}", lambda: wit(r))
            continue
        out = [(tuple(e[0]), tuple(e[1])) for e in r.get_edges()]
        ctx.check("C13:output", observe(h).same(S0, with_hgmd=True), "C13:directed:mutated-input", wit)
        ind = Counter(n for s, t in out for n in set(s))
        outd = Counter(n for s, t in out for n in set(t))
        ctx.check("C13:output", all(len(set(s)) == len(s) and len(set(t)) == len(t) for s, t in out), "C13:directed:repeated-node-in-a-side-of-an-output-hyperedge", lambda: wit(out))
        # the degrees of the returned object as ITS OWN incidence queries report them (what a user of the sample measures) are the
        # degrees of its listing
        try:
            q_src = Counter({n: len(r.get_source_edges(n)) for n in r.get_nodes()})
            q_tgt = Counter({n: len(r.get_target_edges(n)) for n in r.get_nodes()})
            ok_q = +q_src == +ind and +q_tgt == +outd
        except Exception as e:
            ok_q = False
            q_src = q_tgt = repr(e)
        ctx.check("C13:output", ok_q, "C13:directed:degrees-reported-by-the-output's-incidence-queries-differ-from-its-listing", lambda: wit({"out": out, "by_query": (repr(q_src)[:200], repr(q_tgt)[:200])}))
        worse = [n for n in ind if ind[n] > ind0.get(n, 0)] + [n for n in outd if outd[n] > outd0.get(n, 0)]
        ctx.check("C13:output", not worse, "C13:directed:in-or-out-degree-increased", lambda: wit({"out": out, "offending": worse[:5], "diag": chain["bad"]}))
        if len(out) == len(edges):
            ctx.check("C13:output", ind == ind0 and outd == outd0, "C13:directed:count-preserved-but-degrees-differ", lambda: wit({"out": out, "diag": chain["bad"]}))
            ctx.check("C13:output", Counter((len(s), len(t)) for s, t in out) == shapes0, "C13:directed:count-preserved-but-shapes-differ", lambda: wit(out))
        else:
            ctx.event("output-merged-coinciding-hyperedges")
            ctx.check("C13:output", len(out) < len(edges), "C13:directed:more-hyperedges-than-input", lambda: wit(out))
        if len(chain["states"]) >= 2:
            ctx.distinct_add(("D", tuple(edges)))
    if idx % 100 < 4:
        ctx.sample({"directed edges": edges})
