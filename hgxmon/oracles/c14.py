"""C14: random generators — structural contracts and seeds (postcondition oracles; a
sys.monitoring probe on random_shuffle exposes which hyperedges were rewired)."""
import contextlib
import io
import random as pyrandom
from collections import Counter

import numpy as np

from .. import history, probes
from ..battery import call, _Raised
from ..observe import observe

TIERS = {"quick": 1000, "thorough": 100000}
WATCHDOG_S = {"quick": 900, "thorough": 7200}
RULE = ("case kinds by index mod 8: 0 random_hypergraph, 1 random_uniform_hypergraph, 2 scale_free_hypergraph (default "
        "arguments, correlated both, corr_target given/omitted, num_shuffles), 3 HOADmodel, 4 add_random_edge(s), 5-7 "
        "random_shuffle / random_shuffle_all_orders (weighted and metadata-carrying inputs, p in {0, .3, .5, 1}, inplace "
        "both); each parameter draw is run with 3 seeds. non-trivial = output has >=2 hyperedges; distinct = by (function, "
        "parameters)")
DECIDING = ["C14:random_hypergraph", "C14:scale_free", "C14:hoad", "C14:add_random", "C14:shuffle"]
ASSUMPTIONS = ["requested counts never exceed the number of possible hyperedges (the generators loop until they have enough)"]


def quiet(fn, *a, **k):
    with contextlib.redirect_stdout(io.StringIO()), contextlib.redirect_stderr(io.StringIO()):
        return fn(*a, **k)


def plain(h):
    return {frozenset(e) for e in h.get_edges()}


def run_case(ctx, rng, idx):
    m = idx % 8
    if idx in (7, 15, 23) or (ctx.tier == "thorough" and idx % 2000 in (23, 31, 39, 47, 55)):
        return saturated_pool_case(ctx, rng, idx)
    [case_random, case_uniform, case_scale_free, case_hoad, case_add, case_shuffle, case_shuffle, case_shuffle][m](ctx, rng, idx)


def check_basic(ctx, mon, name, h, n, by_size, exact, wit):
    S = observe(h)
    ctx.check(mon, type(h).__name__ == "Hypergraph", f"C14:{name}:not-a-Hypergraph", wit)
    ctx.check(mon, sorted(S.nodes) == list(range(n)) and all(type(x) is int or isinstance(x, (int, np.integer)) for x in S.nodes),
              f"C14:{name}:node-set-not-0..n-1", lambda: wit(sorted(S.nodes, key=repr)))
    cnt = Counter(len(k) for k in S.edges)
    ctx.check(mon, set(cnt) <= {s for s, c in by_size.items() if c > 0}, f"C14:{name}:hyperedge-of-unrequested-size", lambda: wit(dict(cnt)))
    for s, c in by_size.items():
        if exact:
            ctx.check(mon, cnt.get(s, 0) == c, f"C14:{name}:count-per-size-not-exact", lambda: wit((s, c, dict(cnt))))
        else:
            ctx.check(mon, cnt.get(s, 0) <= c and (c == 0 or cnt.get(s, 0) >= 1), f"C14:{name}:count-per-size-out-of-range", lambda: wit((s, c, dict(cnt))))
    ctx.check(mon, all(len(set(e)) == len(e) for e in h.get_edges()), f"C14:{name}:repeated-node", wit)
    ctx.check(mon, all(0 <= int(v) < n for e in h.get_edges() for v in e), f"C14:{name}:node-out-of-range", wit)
    return S


def case_random(ctx, rng, idx, uniform=False):
    from hypergraphx.generation.random import random_hypergraph, random_uniform_hypergraph

    n = rng.randint(2, 12)
    if uniform:
        s = rng.randint(1, min(5, n))
        by = {s: rng.randint(0, 8)}
    else:
        by = {s: rng.randint(0, 8) for s in rng.sample(range(1, min(6, n) + 1), rng.randint(1, min(4, n)))}
    name = "random_uniform_hypergraph" if uniform else "random_hypergraph"
    shared = dict(by)  # ONE parameter object handed to every call of the case, as callers do (the expectations use `by`)
    for seed in (rng.randrange(10**6), rng.randrange(10**6), 0):
        def wit(extra=None):
            return {"fn": name, "n": n, "by_size": by, "seed": seed, "extra": repr(extra)[:600]}

        def gen():
            if uniform:
                s_, c_ = list(by.items())[0]
                return random_uniform_hypergraph(n, s_, c_, seed=seed)
            return random_hypergraph(n, shared, seed=seed)

        r = call(gen)
        if isinstance(r, _Raised):
            ctx.check("C14:random_hypergraph", False, f"C14:{name}:raised:{type(r.e).__name__}", lambda: wit(r))
            continue
        S = check_basic(ctx, "C14:random_hypergraph", name, r, n, by, False, wit)
        # unrelated RNG consumption in between must not matter for a seeded call, and neither must anything the
        # caller did to the first result (a generator handing out a cached object would show here)
        pyrandom.random(); np.random.random(3); pyrandom.seed(rng.randrange(99))
        if rng.random() < 0.5:
            try:
                r.add_edge(tuple(range(min(n, 6))))
                r.add_node(n + 5)
                for e in list(r.get_edges())[:2]:
                    r.remove_edge(e)
            except Exception:
                pass
        r2 = call(gen)
        ok = not isinstance(r2, _Raised) and observe(r2).same(S) and r2 is not r
        ctx.check("C14:random_hypergraph", ok, f"C14:{name}:same-seed-different-hypergraph", wit)
        if len(S.edges) >= 2:
            ctx.distinct_add((name, n, tuple(sorted(by.items()))))
    if idx % 100 < 2:
        ctx.sample(wit())


def case_uniform(ctx, rng, idx):
    case_random(ctx, rng, idx, uniform=True)


SATURATED = {10: [1046]}  # case index -> numpy seeds found by search on the pinned tree: 124 717 and 125 693 draws until all 10 pairs on 5 nodes are there


def case_scale_free(ctx, rng, idx):
    from hypergraphx.generation.scale_free import scale_free_hypergraph
    from math import comb

    n = rng.randint(4, 14)
    sizes = rng.sample(range(2, min(5, n) + 1), rng.randint(1, min(3, n - 1)))
    by = {s: rng.randint(0, min(8, comb(n, s) // 2)) for s in sizes}
    # (requests for EVERY node set of one size are only made with seeds known to terminate, see SATURATED: the pinned tree
    # keeps drawing until it has them all, which for an unlucky draw of the node weights takes unboundedly long)
    if rng.random() < 0.2:  # dense but satisfiable request on few nodes (many rejected duplicate draws)
        n = rng.randint(7, 10)
        sizes = [2, 3][: rng.randint(1, 2)]
        by = {s: int(rng.uniform(0.5, 0.8) * comb(n, s)) for s in sizes}
    scale = {s: rng.choice([0.5, 1.0, 2.0, 5.0]) for s in sizes}
    variant = rng.choice(["default", "default", "uncorrelated", "corr_target", "shuffles"])
    kw = {}
    if variant == "uncorrelated":
        kw["correlated"] = False
    elif variant == "corr_target":
        kw["corr_target"] = rng.choice([0.0, 0.3, 0.8, 1.0])
    elif variant == "shuffles":
        kw["num_shuffles"] = rng.randint(1, 5)
    seeds = [rng.randrange(10**6), rng.randrange(10**6), rng.randrange(10**6)]
    if idx in SATURATED:
        n, sizes, by, scale, kw, variant = 5, [2], {2: 10}, {2: 1.0}, {}, "default"
        seeds = SATURATED[idx]  # outcomes in which one node's weight is tiny: more than 1e5 draws are needed for the last pair
        ctx.event("saturated-request-with-a-nearly-unreachable-node-set")
    shared_by, shared_scale = dict(by), dict(scale)  # one parameter object reused over the realisations, as callers do
    if len(sizes) >= 2 and rng.random() < 0.5:
        # the two mappings are keyed by size; nothing says they must list the sizes in the same order
        ks = list(scale)
        rng.shuffle(ks)
        shared_scale = {k_: scale[k_] for k_ in ks}
        ks = list(by)
        rng.shuffle(ks)
        shared_by = {k_: by[k_] for k_ in ks}
    for seed in seeds:
        def wit(extra=None):
            return {"fn": "scale_free_hypergraph", "n": n, "edges_by_size": by, "scale_by_size": scale, "kwargs": kw, "numpy_seed": seed, "extra": repr(extra)[:600]}

        np.random.seed(seed)
        r = call(scale_free_hypergraph, n, shared_by, shared_scale, **kw)
        if isinstance(r, _Raised):
            ctx.check("C14:scale_free", False, f"C14:scale_free_hypergraph({variant}):raised:{type(r.e).__name__}", lambda: wit(r))
            continue
        S = check_basic(ctx, "C14:scale_free", f"scale_free_hypergraph({variant})", r, n, by, True, wit)
        ctx.event("scale_free:" + variant)
        if len(S.edges) >= 2:
            ctx.distinct_add(("sf", n, tuple(sorted(by.items())), variant))
    # invalid arguments are refused
    bad = call(scale_free_hypergraph, n, dict(by), dict(scale), corr_target=1.5)
    if not isinstance(bad, _Raised):
        ctx.note("observation:scale_free_hypergraph accepted corr_target > 1")  # only admissible parameters are claimed
    if idx % 100 < 4:
        ctx.sample(wit())


def case_hoad(ctx, rng, idx):
    from hypergraphx.generation.activity_driven import HOADmodel

    N = rng.randint(3, 10)
    orders = rng.sample(range(1, min(4, N - 1) + 1), rng.randint(1, min(2, N - 1)))
    acts = {o: [rng.choice([0.0, 0.1, 0.5, 1.0, rng.random()]) for _ in range(N)] for o in orders}
    T = rng.randint(1, 8)
    for seed in (rng.randrange(10**6), rng.randrange(10**6), rng.randrange(10**6)):
        def wit(extra=None):
            return {"fn": "HOADmodel", "N": N, "activities": acts, "time": T, "random_seed": seed, "extra": repr(extra)[:600]}

        pyrandom.seed(seed)
        r = call(HOADmodel, N, {o: list(a) for o, a in acts.items()}, time=T)
        if isinstance(r, _Raised):
            ctx.check("C14:hoad", False, f"C14:HOADmodel:raised:{type(r.e).__name__}", lambda: wit(r))
            continue
        ctx.check("C14:hoad", type(r).__name__ == "TemporalHypergraph", "C14:HOADmodel:not-temporal", wit)
        E = r.get_edges()
        ok_size = all(len(e) - 1 in orders for t, e in E)
        ctx.check("C14:hoad", ok_size, "C14:HOADmodel:hyperedge-size-not-order+1", lambda: wit(E[:5]))
        ctx.check("C14:hoad", all(len(set(e)) == len(e) and all(isinstance(v, int) and 0 <= v < N for v in e) for t, e in E), "C14:HOADmodel:node-repeated-or-out-of-range", lambda: wit(E[:5]))
        ctx.check("C14:hoad", all(isinstance(t, int) and 0 <= t < T for t, e in E), "C14:HOADmodel:time-out-of-range", lambda: wit(E[:5]))
        ctx.check("C14:hoad", set(r.get_nodes()) <= set(range(N)), "C14:HOADmodel:unknown-node", wit)
        # activity 0 never activates, activity 1 always does (random() in [0,1))
        if len(E) >= 2:
            ctx.distinct_add(("hoad", N, repr(acts), T))
    if idx % 100 < 4:
        ctx.sample(wit())


class NullCtx:
    def __getattr__(self, k):
        return lambda *a, **kw: True


def rich_hypergraph(rng, need_edges=True, ctx=None):
    """weighted or not, with metadata on nodes and hyperedges, built through the API"""
    cfg = history.Cfg(rng, "H", uni=rng.choice(["small", "gaps", "str", "bigneg", "float", "intfloat"]))
    cfg.invalid_rate = 0.1  # refused calls are part of the build: they must leave no trace in what is measured
    cfg.avoid = {"copy", "clear", "remove_node", "remove_nodes"}
    cfg.n_ops = rng.randint(6, 25)
    live, _ = history.run_history(history.BuildCtx(ctx, "C14") if ctx is not None else NullCtx(), rng, cfg, battery_every=0)
    h = live[0][0]
    for e in list(h.get_edges()):
        if len(e) == 0:
            h.remove_edge(e)
    if need_edges and h.num_edges() < 2:
        ls = cfg.labels
        h.add_edge((ls[0], ls[1]), weight=2 if h.is_weighted() else None, metadata={"k": 1})
        h.add_edge((ls[1], ls[2]), weight=3 if h.is_weighted() else None)
    return h


def case_add(ctx, rng, idx):
    from hypergraphx.generation.random import add_random_edge, add_random_edges

    h = rich_hypergraph(rng, ctx=ctx)
    many = rng.random() < 0.5
    n_nodes = h.num_nodes()
    size = rng.randint(1, min(4, n_nodes))
    inplace = rng.random() < 0.5
    as_order = rng.random() < 0.5
    from math import comb

    num = rng.randint(1, min(4, comb(n_nodes, size)))
    for seed in (rng.randrange(10**6), rng.randrange(10**6), None):
        g = h.copy()
        S0 = observe(g)

        def wit(extra=None):
            return {"fn": "add_random_edges" if many else "add_random_edge", "object": S0.describe(), "size": size, "num": num if many else 1, "inplace": inplace, "seed": seed, "extra": repr(extra)[:600]}

        kw = {"order": size - 1} if as_order else {"size": size}
        if seed is None:
            pyrandom.seed(rng.randrange(10**6))
        r = call(add_random_edges, g, num, inplace=inplace, seed=seed, **kw) if many else call(add_random_edge, g, inplace=inplace, seed=seed, **kw)
        if isinstance(r, _Raised):
            ctx.check("C14:add_random", False, f"C14:{'add_random_edges' if many else 'add_random_edge'}:raised:{type(r.e).__name__}", lambda: wit(r))
            continue
        Sg = observe(g)
        if inplace:
            res, Sres = g, Sg
            ctx.check("C14:add_random", r is None or r is g, "C14:add_random:inplace-returned-other-object", wit)
        else:
            ctx.check("C14:add_random", Sg.same(S0, with_hgmd=True), "C14:add_random:inplace=False-mutated-argument", lambda: wit(Sg.describe()))
            if r is None:
                ctx.check("C14:add_random", False, "C14:add_random:inplace=False-returned-None", wit)
                continue
            res, Sres = r, observe(r)
        new = set(Sres.edges) - set(S0.edges)
        ctx.check("C14:add_random", set(S0.edges) <= set(Sres.edges), "C14:add_random:hyperedge-lost", wit)
        ctx.check("C14:add_random", all(len(k) == size for k in new), "C14:add_random:new-hyperedge-of-other-size", lambda: wit(sorted(map(sorted, new))))
        ctx.check("C14:add_random", len(new) <= (num if many else 1), "C14:add_random:too-many-new-hyperedges", lambda: wit(sorted(map(sorted, new))))
        ctx.check("C14:add_random", Sres.nodes == S0.nodes, "C14:add_random:node-set-or-node-metadata-changed", wit)
        ctx.check("C14:add_random", bool(Sres.weighted) == bool(S0.weighted), "C14:add_random:weightedness-changed", wit)
        for k, (w0, md0) in S0.edges.items():
            w1, md1 = Sres.edges.get(k, (None, None))
            same = (w1 == w0 and md1 == md0)
            redrawn_ok = len(k) == size and (w1 == w0 or (S0.weighted and w1 == w0 + 1)) and md1 in (md0, {})
            if not same:
                ctx.check("C14:add_random", redrawn_ok, "C14:add_random:existing-hyperedge-altered", lambda: wit((sorted(k), w0, md0, w1, md1)))
        ctx.tick("C14:add_random")
        if len(Sres.edges) >= 2:
            ctx.distinct_add(("add", S0.freeze(), size, many, inplace))
    if idx % 100 < 8:
        ctx.sample(wit())


def saturated_pool_case(ctx, rng, idx):
    """random_shuffle with p=1 on hyperedges that occupy EVERY subset of their own node pool (all 6 pairs on 4 nodes, all 10
    pairs on 5 nodes, r singletons on r nodes) while the hypergraph has other nodes too: whatever an implementation does when
    it cannot find a 'fresh' hyperedge, the replacement nodes come from the rewired hyperedges only.  One configuration, many
    seeds (a give-up path taken once in a few hundred calls is still taken here)."""
    import itertools
    import hypergraphx as hgx
    from hypergraphx.generation import random as gr

    n_seeds = 1500 if ctx.tier == "quick" else 6000
    conf = [(4, 2), (5, 2), (6, 1), (5, 3)][(idx // 8) % 4]
    p_ = 1
    if idx == 23 or (ctx.tier == "thorough" and idx % 2000 == 55):
        # a LARGE saturated class rewired in part: all 780 pairs over 40 nodes, p = 0.5 (the kept half already occupies half of the
        # combinations, the rewired half has to land in what is left)
        conf, p_, n_seeds = (40, 2), 0.5, 25 if ctx.tier == "quick" else 100
    pool = list(range(conf[0]))
    inside = list(itertools.combinations(pool, conf[1]))
    o_ = 10 if conf[0] <= 9 else 1000  # (labels of the other hyperedges: never in the pool)
    outside = [(o_, o_ + 1, o_ + 2, o_ + 3), (o_ + 1, o_ + 2, o_ + 4, o_ + 5, o_ + 6)] + ([(o_ + 2, o_ + 3)] if conf[1] != 2 else [(o_ + 2, o_ + 3, o_ + 7)])
    outside += [tuple(range(o_ + 20 + 4 * j, o_ + 24 + 4 * j)) for j in range(10)] if conf[0] > 9 else []
    ctx.event(f"saturated-shuffle-pool:{conf}")
    bad = None
    for seed in range(n_seeds):
        g = hgx.Hypergraph(inside + outside)
        g.add_node(9999)
        r = call(quiet, gr.random_shuffle, g, size=conf[1], inplace=True, p=p_, seed=seed)
        if isinstance(r, _Raised):
            ctx.check("C14:shuffle", False, f"C14:random_shuffle:raised:{type(r.e).__name__}:saturated-pool", lambda: {"conf": conf, "seed": seed, "error": repr(r)})
            return
        out = [tuple(e) for e in g.get_edges() if len(e) == conf[1]]
        others = sorted(tuple(e) for e in g.get_edges() if len(e) != conf[1])
        ok = all(set(e) <= set(pool) for e in out) and others == sorted(outside) and set(g.get_nodes()) == set(pool) | {9999} | set().union(*map(set, outside)) and len(out) <= len(inside)
        ctx.tick("C14:shuffle")
        if not ok:
            bad = {"conf": conf, "seed": seed, "got": out[:12], "others": others}
            break
    ctx.check("C14:shuffle", bad is None, "C14:random_shuffle:replacement-node-outside-rewired-hyperedges:saturated-pool", lambda: bad)
    ctx.distinct_add(("saturated-pool", conf))


def case_shuffle(ctx, rng, idx):
    from hypergraphx.generation import random as gr

    h = rich_hypergraph(rng, ctx=ctx)
    sizes = sorted({len(e) for e in h.get_edges()})
    all_orders = rng.random() < 0.3
    size = rng.choice(sizes + [max(sizes) + 1])
    p = rng.choice([0, 0.0, 0.3, 0.5, 1.0, 1])
    inplace = rng.random() < 0.5
    if rng.random() < 0.25:
        inplace = np.bool_(inplace)  # a flag that comes out of a NumPy comparison: equal to True / False, not identical to them
    preserve = rng.random() < 0.3
    as_order = rng.random() < 0.5
    code = gr.random_shuffle.__code__
    for seed in (rng.randrange(10**6), rng.randrange(10**6), None):
        g = h.copy()
        S0 = observe(g)
        seen = []

        def on_return(frame, *a):
            L = frame.f_locals
            if "indices_to_replace" in L and "new_edges" in L and "current_edges" in L:
                seen.append({"size": L.get("size"), "idx": set(L["indices_to_replace"]),
                             "cur": [tuple(e) for e in L["current_edges"]], "new": [tuple(e) for e in L["new_edges"]]})

        def wit(extra=None):
            return {"fn": "random_shuffle_all_orders" if all_orders else "random_shuffle", "object": S0.describe(), "size": None if all_orders else size,
                    "p": p, "inplace": repr(inplace), "preserve_degree": preserve, "seed": seed, "extra": repr(extra)[:700]}

        inc0 = None
        if p == 0 and g.get_edges():
            # something attached to an incidence (hyperedge, node) of the argument
            e_ = rng.choice([e for e in g.get_edges() if len(e) > 0] or [None])
            if e_ is not None:
                try:
                    g.set_incidence_metadata(e_, e_[0], {"role": "chair"})
                    inc0 = dict(g.get_all_incidences_metadata())
                    S0 = observe(g)
                except Exception as ex:
                    ctx.note("incidence-metadata-not-settable:" + type(ex).__name__)
                    inc0 = None
        pyrandom.seed(rng.randrange(10**6))
        if seed is None:
            np.random.seed(rng.randrange(10**6))
        with probes.attached(code, "PY_RETURN", on_return):
            if all_orders:
                r = call(quiet, gr.random_shuffle_all_orders, g, p=p, inplace=inplace, preserve_degree=preserve, seed=seed)
            else:
                kw = {"order": size - 1} if as_order else {"size": size}
                r = call(quiet, gr.random_shuffle, g, inplace=inplace, p=p, preserve_degree=preserve, seed=seed, **kw)
        name = "random_shuffle_all_orders" if all_orders else "random_shuffle"
        if isinstance(r, _Raised):
            ctx.check("C14:shuffle", False, f"C14:{name}:raised:{type(r.e).__name__}", lambda: wit(r))
            continue
        Sg = observe(g)
        if inplace:
            Sres = Sg
        else:
            ctx.check("C14:shuffle", Sg.same(S0, with_hgmd=True), f"C14:{name}:inplace=False-mutated-argument:" + ",".join(Sg.diff(S0, True)), lambda: wit(Sg.describe()))
            if r is None:
                ctx.check("C14:shuffle", False, f"C14:{name}:inplace=False-returned-None", wit)
                continue
            Sres = observe(r)
        touched = set(sizes) if all_orders else {size}
        ctx.check("C14:shuffle", set(Sres.nodes) == set(S0.nodes), f"C14:{name}:node-set-changed", lambda: wit(sorted(Sres.nodes, key=repr)))
        other0 = {k: v for k, v in S0.edges.items() if len(k) not in touched}
        other1 = {k: v for k, v in Sres.edges.items() if len(k) not in touched}
        ctx.check("C14:shuffle", other0 == other1, f"C14:{name}:hyperedge-of-other-size-changed", lambda: wit(Sres.describe()))
        for s in touched:
            in_s = {k for k in S0.edges if len(k) == s}
            out_s = {k for k in Sres.edges if len(k) == s}
            pool_all = set().union(*in_s) if in_s else set()
            fresh = out_s - in_s
            ctx.check("C14:shuffle", all(k <= pool_all for k in fresh), f"C14:{name}:replacement-node-outside-rewired-hyperedges", lambda: wit(sorted(map(sorted, fresh))))
            ctx.check("C14:shuffle", len(in_s - out_s) <= int(p * len(in_s)), f"C14:{name}:more-hyperedges-rewired-than-p-allows", lambda: wit((s, len(in_s - out_s), int(p * len(in_s)))))
            ctx.check("C14:shuffle", len(out_s) <= len(in_s), f"C14:{name}:number-of-hyperedges-grew", lambda: wit(s))
        if p == 0:
            ctx.check("C14:shuffle", Sres.same(S0), f"C14:{name}:p=0-changed-hypergraph:" + ",".join(Sres.diff(S0)), lambda: wit(Sres.describe()))
            if inc0 is not None:
                res_obj = g if inplace else r
                inc1 = call(lambda: dict(res_obj.get_all_incidences_metadata()))
                ctx.check("C14:shuffle", inc1 == inc0, f"C14:{name}:p=0-changed-incidence-metadata", lambda: wit((inc0, inc1)))
        # hook-level: replacement nodes come only from the hyperedges actually rewired
        for rec in seen:
            pool = set().union(*[set(rec["cur"][i]) for i in rec["idx"]]) if rec["idx"] else set()
            for i in rec["idx"]:
                ctx.check("C14:shuffle", set(rec["new"][i]) <= pool and len(set(rec["new"][i])) == len(rec["cur"][i]),
                          f"C14:{name}:hook:rewired-hyperedge-changed-size-or-left-pool", lambda: wit((rec["cur"][i], rec["new"][i])))
            for i in range(len(rec["cur"])):
                if i not in rec["idx"]:
                    ctx.check("C14:shuffle", rec["new"][i] == rec["cur"][i], f"C14:{name}:hook:unselected-hyperedge-rewired", wit)
        ctx.event("shuffle-hook-observations", len(seen))
        if len(Sres.edges) >= 2:
            ctx.distinct_add(("shuffle", S0.freeze(), all_orders, size, p, inplace, preserve))
    if idx % 100 < 8:
        ctx.sample(wit())
