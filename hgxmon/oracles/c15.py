"""C15: Hy-MMSBM — closed forms against brute-force sums over all possible hyperedges;
fit(): supplied parameters untouched, iterates finite/non-negative/symmetric (trace monitor
on every _w_update/_u_update), exact Poisson likelihood non-decreasing in n_iter."""
import itertools
import math

import numpy as np
from scipy import sparse

from ..battery import call, _Raised

TIERS = {"quick": 900, "thorough": 60000}
WATCHDOG_S = {"quick": 1200, "thorough": 10000}
RULE = ("case kinds by index mod 3: 0,1 = closed forms for one parameter set (N 2-8, K 1-4, D 2..N, u>=0 with zero entries and "
        "zero rows, w symmetric full or diagonal) against sums over ALL hyperedges up to size D; 2 = one fit configuration "
        "(hypergraph on 4-8 nodes with sizes 2-5, weighted or not, K 1-3, assortative both, w_prior in {0,0.3,1,5}, u supplied "
        "or inferred, max_hye_size supplied or detected) replayed for n_iter = 1..T with one seed and traced at every update. "
        "non-trivial = (closed forms) D>=3 and u has a zero entry or K>=2; (fit) >=2 hyperedges; distinct = by parameter values")
DECIDING = ["C15:closed-form", "C15:fit-iterate", "C15:fit-supplied-unchanged", "C15:fit-ascent"]
ASSUMPTIONS = ["rtol 1e-9 on closed forms; ascent tolerance 1e-9*(1+|L|); a difference between tol and 100*tol is inconclusive",
               "exact likelihood = sum over data hyperedges of A_e*log(lambda_e/kappa_e) minus the sum over ALL hyperedges up to the model's max size of lambda_e/kappa_e"]
RT = 1e-9


def close(ctx, monitor, got, ref, mech, wit, rt=RT, at=1e-12):
    """three-valued numeric comparison"""
    got = np.asarray(got, dtype=float)
    ref = np.asarray(ref, dtype=float)
    if got.shape != ref.shape:
        ctx.check(monitor, False, mech + ":shape", lambda: wit((got.shape, ref.shape)))
        return
    if not np.all(np.isfinite(got)):
        ctx.check(monitor, bool(np.all(np.isfinite(ref)) is False), mech + ":non-finite", lambda: wit(got.tolist()))
        return
    err = np.abs(got - ref)
    tol = at + rt * np.abs(ref)
    if np.all(err <= tol):
        ctx.tick(monitor)
    elif np.any(err >= 100 * tol):
        ctx.check(monitor, False, mech, lambda: wit({"got": got.tolist(), "expected": ref.tolist()}))
    else:
        ctx.inconclusive_case("band:" + mech)


def all_hyperedges(N, D):
    return [c for d in range(2, D + 1) for c in itertools.combinations(range(N), d)]


def kappa(N, d):
    return math.comb(N - 2, d - 2) * d * (d - 1) / 2


def lam(u, w, e):
    return sum(float(u[i] @ w @ u[j]) for i, j in itertools.combinations(e, 2))


def run_case(ctx, rng, idx):
    if idx in (3, 4) or (ctx.tier == "thorough" and idx % 900 == 13):
        large_closed_case(ctx, rng, idx)
    elif idx % 3 == 2:
        fit_case(ctx, rng, idx)
    else:
        closed_case(ctx, rng, idx)


def large_closed_case(ctx, rng, idx):
    """Closed forms that need no enumeration, on models with hundreds to ~1500 nodes and hyperedge sizes up to N/2 and
    beyond: the binomial inside kappa then exceeds the float range (its logarithm does not), and the identity
    sum over all hyperedges of lambda/kappa = C * sum_{i<j} u_i w u_j is checked through expected_degree."""
    from hypergraphx.communities.hy_mmsbm.model import HyMMSBM

    N = rng.choice([300, 1100, 1500]) if idx != 3 else 1200
    K = 2
    D = rng.choice([N, N // 2 + 100, 800 if N > 800 else N])
    nr = np.random.default_rng(rng.randrange(2**32))
    u = nr.random((N, K))
    w = np.array([[1.0, 0.2], [0.2, 0.7]])
    ctx.event("large-N-closed-forms")

    def wit(extra=None):
        return {"N": N, "K": K, "D": D, "extra": repr(extra)[:600]}

    m = call(HyMMSBM, u=u, w=w, max_hye_size=D)
    if isinstance(m, _Raised):
        ctx.check("C15:closed-form", False, f"C15:constructor-raised:{type(m.e).__name__}", lambda: wit(m))
        return
    ds = sorted({2, 3, D, D // 2, min(D, N // 2), min(D, N // 2 + 1), min(D, 400), min(D, 600)} | {rng.randint(2, D) for _ in range(4)})
    ref = [math.log(math.comb(N - 2, d - 2)) + math.log(d * (d - 1) / 2) for d in ds]  # log of an exact (huge) integer
    for d, r0 in zip(ds, ref):
        r = call(m.log_kappa, d)
        if isinstance(r, _Raised):
            ctx.check("C15:closed-form", False, f"C15:log_kappa:raised:{type(r.e).__name__}", lambda: wit((d, r)))
        else:
            close(ctx, "C15:closed-form", r, r0, "C15:log_kappa:differs", lambda x=None: wit((d, x)), rt=1e-9)
    r = call(m.log_kappa, np.array(ds))
    if not isinstance(r, _Raised):
        close(ctx, "C15:closed-form", r, ref, "C15:log_kappa(array):differs", wit, rt=1e-9)
    us = u.sum(axis=0)
    pair_sum = 0.5 * (float(us @ w @ us) - float(np.einsum("ik,kl,il->", u, w, u)))
    for d in ["all", 2, 3, D]:
        dv = list(range(2, D + 1)) if d == "all" else [d]
        r = call(m.C, d)
        if isinstance(r, _Raised):
            ctx.check("C15:closed-form", False, f"C15:C:raised:{type(r.e).__name__}", lambda: wit((d, r)))
            continue
        close(ctx, "C15:closed-form", r, sum(2 / (x * (x - 1)) for x in dv), "C15:C:differs-from-formula", lambda x=None: wit((d, x)))
    if N <= 400 and D >= 3:
        ctx.distinct_add(("large", N, D, u[:3].tobytes()))
    else:
        ctx.distinct_add(("large", N, D, u[:3].tobytes()))


def gen_uw(rng, N, K, diag=None, positive=False):
    nr = np.random.default_rng(rng.randrange(2**32))
    u = nr.random((N, K)) * rng.choice([1.0, 3.0, 1.0, 3.0, 1e-3, 1e3, 1e5])
    if not positive:
        u[nr.random((N, K)) < 0.25] = 0.0
        if rng.random() < 0.3:
            u[rng.randrange(N)] = 0.0
    else:
        u += 0.05
    w = nr.random((K, K)) * rng.choice([1.0, 0.2, 4.0, 1e-9, 1e-5, 1e4])
    w = np.triu(w, 0) + np.triu(w, 1).T
    if diag if diag is not None else rng.random() < 0.4:
        w = np.diag(np.diag(w))
    if rng.random() < 0.2 and not positive:
        w[rng.randrange(K), :] = 0
        w = np.triu(w, 0) + np.triu(w, 1).T
    return u, w


def closed_case(ctx, rng, idx):
    from hypergraphx.communities.hy_mmsbm.model import HyMMSBM

    N = rng.randint(2, 8)
    K = rng.randint(1, 4)
    D = rng.randint(2, N)
    u, w = gen_uw(rng, N, K)
    u0, w0 = u.copy(), w.copy()

    def wit(extra=None):
        return {"N": N, "K": K, "D": D, "u": u0.tolist(), "w": w0.tolist(), "extra": repr(extra)[:800]}

    m = call(HyMMSBM, u=u, w=w, max_hye_size=D)
    if isinstance(m, _Raised):
        ctx.check("C15:closed-form", False, f"C15:constructor-raised:{type(m.e).__name__}", lambda: wit(m))
        return
    # The closed forms are differences of sums of products u*w*u (total minus diagonal terms): their rounding error is
    # relative to the magnitude of the terms that cancel, not to the (possibly zero) result, so the absolute tolerance
    # scales with S = (sum |u|)^2 * max |w|.
    S_mag = float(np.abs(u0).sum()) ** 2 * float(np.abs(w0).max() if w0.size else 0.0)
    AT = 1e-12 + 1e-13 * S_mag

    def closeS(*a, **k):
        return close(*a, at=AT, **k)

    E = all_hyperedges(N, D)
    L = np.array([lam(u0, w0, e) for e in E])
    kap = np.array([kappa(N, len(e)) for e in E])
    B = np.zeros((N, len(E)))
    for j, e in enumerate(E):
        B[list(e), j] = 1
    # ---- poisson_params ----------------------------------------------------------------------
    sub = sorted(rng.sample(range(len(E)), min(len(E), 40)))
    for name, mat in (("dense", B[:, sub]), ("sparse", sparse.csr_array(B[:, sub]))):
        r = call(m.poisson_params, mat)
        if isinstance(r, _Raised):
            ctx.check("C15:closed-form", False, f"C15:poisson_params({name}):raised:{type(r.e).__name__}", lambda: wit(r))
        else:
            closeS(ctx, "C15:closed-form", r, L[sub], "C15:poisson_params:differs-from-pair-sum", wit)
    # ---- log_kappa ---------------------------------------------------------------------------
    for d in range(2, D + 1):
        r = call(m.log_kappa, d)
        if isinstance(r, _Raised):
            ctx.check("C15:closed-form", False, f"C15:log_kappa:raised:{type(r.e).__name__}", lambda: wit((d, r)))
        else:
            close(ctx, "C15:closed-form", r, math.log(kappa(N, d)), "C15:log_kappa:differs", lambda x=None: wit((d, x)))
    r = call(m.log_kappa, np.arange(2, D + 1))
    if not isinstance(r, _Raised):
        close(ctx, "C15:closed-form", r, [math.log(kappa(N, d)) for d in range(2, D + 1)], "C15:log_kappa(array):differs", wit)
    # ... the sizes in any order, with repeats, starting at the largest possible size d = N (the arrays callers build from
    # the sizes of a hyperedge list are not sorted)
    forms = [list(range(D, 1, -1)), [D] + list(range(2, D + 1)) + [D, 2]]
    if N <= 40:
        forms += [list(range(N, 1, -1)), [N, 2] + [rng.randint(2, N) for _ in range(4)]]
    shuffled = list(range(2, D + 1)) * 2
    rng.shuffle(shuffled)
    forms.append(shuffled)
    for dl in forms:
        r = call(m.log_kappa, np.array(dl))
        if not isinstance(r, _Raised):
            close(ctx, "C15:closed-form", r, [math.log(kappa(N, d)) for d in dl], "C15:log_kappa(array in another order):differs", lambda x=None: wit((dl, x)))
    # ---- C -----------------------------------------------------------------------------------
    pair_sum = sum(float(u0[i] @ w0 @ u0[j]) for i, j in itertools.combinations(range(N), 2))
    for d in ["all"] + list(range(2, D + 1)):
        dv = list(range(2, D + 1)) if d == "all" else [d]
        r = call(m.C, d)
        if isinstance(r, _Raised):
            ctx.check("C15:closed-form", False, f"C15:C:raised:{type(r.e).__name__}", lambda: wit((d, r)))
            continue
        close(ctx, "C15:closed-form", r, sum(2 / (x * (x - 1)) for x in dv), "C15:C:differs-from-formula", lambda x=None: wit((d, x)))
        if pair_sum > 1e-9:
            tot = sum(L[j] / kap[j] for j, e in enumerate(E) if len(e) in dv)
            closeS(ctx, "C15:closed-form", r * pair_sum, tot, "C15:C:not-the-ratio-of-total-rate-to-pair-sum", lambda x=None: wit((d, x)))
    # ---- expected degrees ----------------------------------------------------------------------
    dim_choices = ["all", np.arange(2, D + 1)]
    if D >= 3:
        dim_choices += [np.arange(3, D + 1), rng.randint(2, D), np.array(sorted(rng.sample(range(2, D + 1), rng.randint(1, D - 1))))]
    for d in dim_choices:
        dv = list(range(2, D + 1)) if isinstance(d, str) else ([d] if isinstance(d, int) else [int(x) for x in d])
        ref = np.zeros(N)
        for j, e in enumerate(E):
            if len(e) in dv:
                for i in e:
                    ref[i] += L[j] / kap[j]
        r = call(m.expected_degree, per_node=True, d=d)
        if isinstance(r, _Raised):
            mech = f"C15:expected_degree(per_node):raised:{type(r.e).__name__}" + (":N==2" if N == 2 else "")
            ctx.check("C15:closed-form", False, mech, lambda: wit((d, r)))
        else:
            closeS(ctx, "C15:closed-form", r, ref, "C15:expected_degree(per_node):differs-from-sum-over-hyperedges", lambda x=None: wit((d, x)))
        r = call(m.expected_degree, per_node=False, d=d)
        if isinstance(r, _Raised):
            ctx.check("C15:closed-form", False, f"C15:expected_degree(average):raised:{type(r.e).__name__}", lambda: wit((d, r)))
        else:
            closeS(ctx, "C15:closed-form", r, ref.mean(), "C15:expected_degree(average):differs", lambda x=None: wit((d, x)))
    # ---- expected dimension sequence -------------------------------------------------------------
    for dy in (False, True):
        r = call(m.dimension_sequence, include_dyadic=dy, expected=True)
        dims = range(2 if dy else 3, D + 1)
        ref = {d: sum(L[j] / kap[j] for j, e in enumerate(E) if len(e) == d) for d in dims}
        if isinstance(r, _Raised):
            ctx.check("C15:closed-form", False, f"C15:dimension_sequence:raised:{type(r.e).__name__}", lambda: wit(r))
            continue
        keys_ok = set(int(k) for k in r) <= set(dims) and all(ref[d] <= 1e-12 for d in dims if d not in {int(k) for k in r})
        ctx.check("C15:closed-form", keys_ok, "C15:dimension_sequence:keys", lambda: wit((dict(r), ref)))
        if keys_ok and r:
            ks = sorted(int(k) for k in r)
            closeS(ctx, "C15:closed-form", [float(r[k]) for k in ks], [ref[k] for k in ks], "C15:dimension_sequence:differs-from-sum-over-hyperedges", wit)
        r = call(m.degree_sequence, include_dyadic=dy, expected=True)
        if not isinstance(r, _Raised) and (dy or D >= 3):
            refd = np.zeros(N)
            for j, e in enumerate(E):
                if len(e) in dims:
                    for i in e:
                        refd[i] += L[j] / kap[j]
            closeS(ctx, "C15:closed-form", r, refd, "C15:degree_sequence(expected):differs", wit)
        elif isinstance(r, _Raised) and N > 2 and (dy or D >= 3):
            ctx.check("C15:closed-form", False, f"C15:degree_sequence(expected):raised:{type(r.e).__name__}", lambda: wit(r))
    ctx.check("C15:closed-form", np.array_equal(u, u0) and np.array_equal(w, w0), "C15:closed-form-call-mutated-parameters", wit)
    # the SAME model object after its parameters were rescaled in place (what the sampler's allow_rescaling does): every
    # quantity is a function of the current u and w, not of what they were at an earlier query
    if rng.random() < 0.4:
        c_u, c_w = rng.choice([2.0, 0.5, 3.0]), rng.choice([1.0, 4.0, 0.25])
        m.u *= c_u
        m.w *= c_w
        ctx.event("queried-again-after-in-place-rescaling")
        scale = c_u * c_u * c_w
        r = call(m.poisson_params, B[:, sub])
        if not isinstance(r, _Raised):
            closeS(ctx, "C15:closed-form", np.asarray(r) / scale, L[sub], "C15:poisson_params:stale-after-in-place-rescaling", wit)
        r = call(m.expected_degree, per_node=False, d="all")
        if not isinstance(r, _Raised) and N > 2:
            refd = sum(L[j] / kap[j] * len(e) for j, e in enumerate(E)) / N
            closeS(ctx, "C15:closed-form", r / scale, refd, "C15:expected_degree(average):stale-after-in-place-rescaling", wit)
    if D >= 3 and ((u0 == 0).any() or K >= 2):
        ctx.distinct_add(("closed", N, K, D, u0.tobytes(), w0.tobytes()))
    if idx % 150 < 2:
        ctx.sample({"kind": "closed-forms", "N": N, "K": K, "D": D, "u": u0.round(3).tolist(), "w": w0.round(3).tolist()})


# ------------------------------------------------------------------------------------------------
def exact_loglik(u, w, N, D, data):
    """data: list of (edge tuple, weight).  -inf when a data hyperedge is outside the model"""
    tot = 0.0
    if N > 9:
        # sum over ALL hyperedges of lambda/kappa = sum_d 2/(d(d-1)) * sum_{i<j} u_i w u_j: each pair lies in C(N-2, d-2)
        # hyperedges of size d (the identity the closed-form cases verify by brute force for N <= 8)
        us = u.sum(axis=0)
        pair = 0.5 * (float(us @ w @ us) - float(np.einsum("ik,kl,il->", u, w, u)))
        tot = sum(2 / (d * (d - 1)) for d in range(2, D + 1)) * pair
    for e in (all_hyperedges(N, D) if N <= 9 else []):
        tot += lam(u, w, e) / kappa(N, len(e))
    ll = -tot
    for e, a in data:
        if len(e) > D:
            return -math.inf
        l = lam(u, w, e) / kappa(N, len(e))
        if l <= 0:
            return -math.inf
        ll += a * math.log(l)
    return ll


FORCED = {  # re-confirmation of the open findings on every run (witness inputs, same monitors)
    2: dict(N=4, K=3, edges=[(0, 1), (0, 1, 2), (0, 2), (0, 2, 3), (0, 3), (1, 3), (2, 3)], assortative=True, w_prior=0.0,
            u_prior=1.0, mode="both-inferred", seed=436284098, T=10),
    5: dict(N=6, K=2, edges=[(0, 1, 5), (0, 2), (1, 2, 3), (1, 3, 5), (1, 4), (1, 4, 5), (1, 5), (3, 5)], assortative=True,
            w_prior=5.0, u_prior=0.0, mode="u-supplied", seed=91671242, T=6, D_given=6,
            u=[[0.33979438616219865, 0.9501178397724447], [0.0774682636893171, 0.27823397487356566], [0.1428277923883408, 0.5215602260905541],
               [0.5061668139043344, 0.12910091907140214], [0.9207922668067348, 0.55349967059448], [0.8658741823229579, 0.23323007832615733]]),
    # (found by the thorough tier, seed 1: two affinity entries fall 1e-8 -> 1e-15 -> 1e-30 -> 0.0, the tenth update is 0 * inf)
    11: dict(N=5, K=3, edges=[(0, 3), (1, 4), (2, 4)], assortative=False, w_prior=0.0, u_prior=1.0, mode="both-inferred", seed=1513829515, T=10),
    # (same sweep: a community is left with one member of weight 0.07, the others at 1e-18 ... 1e-22; the denominator of its affinity
    # update, computed as (sum u)^2 - sum u^2, cancels to a non-positive number and the quotient is -inf)
    14: dict(N=4, K=3, edges=[(0, 1), (1, 2, 3), (2, 3)], assortative=False, w_prior=0.0, u_prior=1.0, mode="both-inferred", seed=465552935, T=21, D_given=3),
}


def fit_case(ctx, rng, idx):
    import hypergraphx as hgx
    from hypergraphx.communities.hy_mmsbm import model as mm

    forced = FORCED.get(idx)
    N = rng.randint(4, 8)
    if idx == 8 or (ctx.tier == "thorough" and idx % 600 == 11):
        N = rng.randint(25, 50)  # scale
        ctx.event("big-fit")
    K = rng.randint(1, 3)
    weighted = rng.random() < 0.5
    edges = set()
    pool = list(range(N))
    if rng.random() < 0.35:  # a node (not necessarily the last one) that takes part in no hyperedge
        pool.remove(rng.randrange(N))
    for _ in range(rng.randint(2, 12) if N <= 8 else rng.randint(60, 150)):
        edges.add(tuple(sorted(rng.sample(pool, min(len(pool), rng.choice([2, 2, 3, 3, 4, 5][: max(1, N - 1)]))))))
    edges = sorted(edges)
    wts = [rng.randint(1, 4) if weighted else 1 for _ in edges]
    h = hgx.Hypergraph(edges, weighted=weighted, weights=wts if weighted else None)
    h.add_nodes(list(range(N)))
    if not forced and rng.random() < 0.35:
        # the hypergraph OBJECT has a past: it was fitted (and asked for its likelihood) before, then edited in place so that the
        # numbers of nodes and hyperedges - or even every degree and size - stay what they were.  What is judged below is the
        # fit on its CURRENT content.
        from ..mutate import same_count_edit, degree_preserving_swap

        with np.errstate(all="ignore"):
            m0 = call(mm.HyMMSBM, K=K, seed=1, assortative=False)
            if not isinstance(m0, _Raised):
                call(m0.fit, h, n_iter=1)
                call(m0.log_likelihood, h)
        ed = degree_preserving_swap(rng, h) if rng.random() < 0.5 else same_count_edit(rng, h, uniform_size=rng.choice([2, 3]))
        if ed:
            ctx.event("hypergraph-object-fitted-before-then-edited-in-place")
            edges = sorted(tuple(sorted(e)) for e in h.get_edges())
            wts = [h.get_weight(e) if weighted else 1 for e in edges]
    dmax = max(len(e) for e in edges)
    assortative = rng.random() < 0.5
    w_prior = rng.choice([0.0, 0.0, 1.0, 1.0, 0.3, 5.0])
    u_prior = rng.choice([0.0, 1.0])
    prior_as_array = rng.random() < 0.3
    mode = rng.choice(["u-supplied", "u-supplied", "u-supplied", "both-inferred", "w-supplied", "both-supplied"])
    give_max = rng.random() < 0.5
    D_given = rng.randint(dmax, min(N, dmax + 3)) if give_max else None
    seed = rng.randrange(2**31)
    u_in = w_in = None
    if mode in ("u-supplied", "both-supplied"):
        u_in, _ = gen_uw(rng, N, K, positive=True)
    if mode in ("w-supplied", "both-supplied"):
        _, w_in = gen_uw(rng, N, K, diag=assortative, positive=True)
    T = 6 if ctx.tier == "quick" else 10
    fit_kw = {}
    if rng.random() < 0.3:  # early stopping on a tolerance (checked every `check_convergence_every` iterations)
        fit_kw = {"tolerance": rng.choice([0.3, 0.05, 1e-2]), "check_convergence_every": rng.choice([1, 1, 2, 3])}
        T = 12 if ctx.tier == "quick" else 20
    if forced:
        fit_kw = {}
        N, K, edges, assortative, w_prior, u_prior, mode, seed, T = (forced[k] for k in ("N", "K", "edges", "assortative", "w_prior", "u_prior", "mode", "seed", "T"))
        wts, weighted, dmax = [1] * len(edges), False, max(len(e) for e in edges)
        h = hgx.Hypergraph(edges)
        h.add_nodes(list(range(N)))
        D_given = forced.get("D_given")
        u_in = np.array(forced["u"]) if "u" in forced else None
        w_in = None
    data = list(zip(edges, wts))

    def wit(extra=None):
        return {"N": N, "K": K, "edges": edges if len(edges) <= 30 else len(edges), "weights": wts if len(edges) <= 30 else None, "assortative": assortative, "w_prior": w_prior, "w_prior_as_KxK_array": prior_as_array and w_prior > 0, "u_prior": u_prior,
                "mode": mode, "max_hye_size": D_given, "seed": seed, "fit_kwargs": fit_kw, "u": None if u_in is None else u_in.tolist(),
                "w": None if w_in is None else w_in.tolist(), "extra": repr(extra)[:900]}

    # ---- trace monitor: wrap the two update methods of the real class ---------------------------------
    trace = {"w": 0, "u": 0, "bad": None}
    orig_w, orig_u = getattr(mm.HyMMSBM, "_w_update", None), getattr(mm.HyMMSBM, "_u_update", None)  # private: watched when present

    def judge_iter(self, name, val, args=()):
        trace[name] += 1
        if trace["bad"]:
            return
        if not np.all(np.isfinite(val)):
            # mechanism classifier: did a community's membership column underflow to 0 just before?  or, with the memberships
            # intact, an entry of the (full) affinity matrix?
            cur = self.u
            under = np.all(np.isfinite(cur)) and float(np.abs(cur).max(axis=0).min()) < 1e-100
            w_under = False
            try:
                pw = np.asarray(self.w, dtype=float)
                w_under = (not assortative) and np.all(np.isfinite(pw)) and np.all(np.isfinite(cur)) and bool(np.any(np.abs(pw) < 1e-100))
            except Exception:
                pass
            pp_bad = False
            if not under and not w_under and name == "w" and args:
                # ... or is the Poisson parameter of a DATA hyperedge, as the model itself evaluates it from the current (finite)
                # parameters, zero or negative (the pair-sum identity cancels), so that the update divides by it?
                try:
                    pp = np.asarray(self.poisson_params(args[0]), dtype=float)
                    pp_bad = np.all(np.isfinite(cur)) and np.all(np.isfinite(np.asarray(self.w, dtype=float))) and bool(np.any(~(pp > 0)))
                except Exception:
                    pp_bad = False
            den_bad = False
            if not under and not w_under and not pp_bad and name == "w":
                # ... or is the denominator of the affinity update, sum_{i<j} u_ia u_jb (+ prior), zero or negative for some pair of
                # communities - a community left with (numerically) one member?
                try:
                    us = cur.sum(axis=0)
                    den = 0.5 * (np.outer(us, us) - cur.T @ cur) + (self.w_prior if np.ndim(self.w_prior) else float(self.w_prior))
                    den_bad = np.all(np.isfinite(cur)) and bool(np.any(~(den > 0)))
                except Exception:
                    den_bad = False
            trace["bad"] = ("non-finite-parameters:after-community-underflow" if under
                            else "non-finite-parameters:after-affinity-entry-underflow" if w_under
                            else "non-finite-parameters:poisson-parameter-of-a-data-hyperedge-not-positive" if pp_bad
                            else "non-finite-parameters:affinity-update-denominator-not-positive(community-with-one-member)" if den_bad else f"{name}-iterate-not-finite")
        elif np.any(val < -1e-12):
            trace["bad"] = f"{name}-iterate-negative"
        elif name == "w":
            if not np.allclose(val, val.T, rtol=1e-9, atol=1e-12):
                trace["bad"] = "w-iterate-not-symmetric"
            elif assortative and np.any(val[~np.eye(K, dtype=bool)] != 0):
                trace["bad"] = "w-iterate-not-diagonal-though-assortative"
        if u_in is not None and not np.array_equal(self.u, u_in):
            trace["bad"] = "supplied-u-changed-during-fit"
        if w_in is not None and not np.array_equal(self.w, w_in):
            trace["bad"] = "supplied-w-changed-during-fit"

    def w_wrapped(self, *a, **k):
        v = orig_w(self, *a, **k)
        try:
            judge_iter(self, "w", v, a)
        except Exception as e:  # the monitor must not change what fit() does
            ctx.note("trace-monitor-error:" + type(e).__name__)
        return v

    def u_wrapped(self, *a, **k):
        v = orig_u(self, *a, **k)
        try:
            judge_iter(self, "u", v)
        except Exception as e:
            ctx.note("trace-monitor-error:" + type(e).__name__)
        return v

    if orig_w is not None and orig_u is not None:
        mm.HyMMSBM._w_update, mm.HyMMSBM._u_update = w_wrapped, u_wrapped
    else:
        ctx.note("probe-unavailable:_w_update/_u_update")
    seq = []
    try:
        for n_iter in range(1, T + 1):
            uu = None if u_in is None else u_in.copy()
            ww = None if w_in is None else w_in.copy()
            kw = dict(K=K, u=uu, w=ww, assortative=assortative, max_hye_size=D_given, u_prior=u_prior, w_prior=w_prior, seed=seed)
            if prior_as_array and w_prior > 0:
                kw["w_prior"] = np.full((K, K), float(w_prior))  # the same rate for every entry, in the documented array form
            m = call(mm.HyMMSBM, **kw)
            if isinstance(m, _Raised):
                ctx.check("C15:fit-iterate", False, f"C15:fit:constructor-raised:{type(m.e).__name__}", lambda: wit(m))
                return
            with np.errstate(all="ignore"):
                r = call(m.fit, h, n_iter=n_iter, **fit_kw)
            if isinstance(r, _Raised):
                ctx.check("C15:fit-iterate", False, f"C15:fit:raised:{type(r.e).__name__}", lambda: wit((n_iter, r)))
                return
            # supplied parameters are untouched (values, and not mutated in place)
            if u_in is not None:
                ctx.check("C15:fit-supplied-unchanged", np.array_equal(m.u, u_in) and np.array_equal(uu, u_in), "C15:fit:supplied-u-changed", lambda: wit((n_iter, m.u.tolist())))
            if w_in is not None:
                ctx.check("C15:fit-supplied-unchanged", np.array_equal(m.w, w_in) and np.array_equal(ww, w_in), "C15:fit:supplied-w-changed", lambda: wit((n_iter, m.w.tolist())))
            finite = bool(np.all(np.isfinite(m.u)) and np.all(np.isfinite(m.w)))
            if not finite:
                prev = seq[-1][1] if seq else None
                prev_w = seq[-1][2] if seq else None
                under = prev is not None and np.all(np.isfinite(prev)) and float(np.abs(prev).max(axis=0).min()) < 1e-100
                w_under = (not under) and (not assortative) and prev_w is not None and np.all(np.isfinite(prev_w)) and bool(np.any(np.abs(prev_w) < 1e-100))
                mech = ("C15:fit:non-finite-parameters:after-community-underflow" if under
                        else "C15:fit:non-finite-parameters:after-affinity-entry-underflow" if w_under
                        else "C15:fit:" + str(trace["bad"]) if str(trace["bad"]).startswith("non-finite-parameters:") else "C15:fit:parameters-not-finite")
                ctx.check("C15:fit-iterate", False, mech, lambda: wit((n_iter, m.u.tolist(), m.w.tolist())))
                break
            ctx.check("C15:fit-iterate", bool(np.all(m.u >= -1e-12) and np.all(m.w >= -1e-12)), "C15:fit:parameters-negative", lambda: wit((n_iter, m.u.tolist(), m.w.tolist())))
            ctx.check("C15:fit-iterate", np.allclose(m.w, m.w.T, rtol=1e-9, atol=1e-12), "C15:fit:w-not-symmetric", lambda: wit((n_iter, m.w.tolist())))
            if assortative:
                ctx.check("C15:fit-iterate", not np.any(m.w[~np.eye(K, dtype=bool)] != 0), "C15:fit:w-not-diagonal-though-assortative", lambda: wit((n_iter, m.w.tolist())))
            ctx.check("C15:fit-iterate", m.max_hye_size is not None and m.max_hye_size >= dmax,
                      "C15:fit:max-hyperedge-size-detected-below-data", lambda: wit((m.max_hye_size, dmax)))
            seq.append((n_iter, m.u.copy(), m.w.copy(), m.max_hye_size))
    finally:
        if orig_w is not None and orig_u is not None:
            mm.HyMMSBM._w_update, mm.HyMMSBM._u_update = orig_w, orig_u
    ctx.event("update-hook:w", trace["w"])
    ctx.event("update-hook:u", trace["u"])
    expected_hooks = sum(range(1, T + 1))
    if mode in ("u-supplied", "both-inferred") and len(seq) == T and not fit_kw:
        ctx.check("C15:fit-iterate", trace["w"] == expected_hooks, "C15:probe:w-update-hook-count", lambda: wit(trace))
    ctx.check("C15:fit-iterate", trace["bad"] is None,
              "C15:fit:" + (str(trace["bad"]) if str(trace["bad"]).startswith("non-finite-parameters:") else "trace:" + str(trace["bad"])), lambda: wit(trace))
    # ---- ascent of the exact likelihood when the memberships are supplied ----------------------------------
    if mode == "u-supplied" and seq and all(s[3] is not None and s[3] >= dmax for s in seq):
        D = seq[0][3]
        Ls = [exact_loglik(u_in, w, N, D, data) for _, _, w, _ in seq]
        # penalised objective of MAP-EM: L - sum_ab prior * w_em,ab with w_em = w * C(D)
        Cc = sum(2 / (d * (d - 1)) for d in range(2, D + 1))
        Fs = [L - w_prior * Cc * float(w.sum()) for L, (_, _, w, _) in zip(Ls, seq)]
        for t in range(1, len(Ls)):
            a, b = Ls[t - 1], Ls[t]
            if not (math.isfinite(a) and math.isfinite(b)):
                ctx.check("C15:fit-ascent", False, "C15:fit:likelihood-not-finite", lambda: wit(Ls))
                break
            tol = 1e-9 * (1 + abs(a))
            if b >= a - tol:
                ctx.tick("C15:fit-ascent")
            elif b > a - 100 * tol:
                ctx.inconclusive_case("band:C15:fit-ascent")
            else:
                pen_ok = Fs[t] >= Fs[t - 1] - 1e-9 * (1 + abs(Fs[t - 1]))
                if w_prior > 0 and pen_ok:
                    mech = "C15:fit:raw-likelihood-decreases-under-positive-w_prior(MAP-EM,penalised-objective-ascends)"
                else:
                    mech = "C15:fit:likelihood-decreased"
                ctx.check("C15:fit-ascent", False, mech, lambda: wit({"n_iter": t + 1, "L": Ls, "penalised": Fs}))
        ctx.event("ascent-steps-judged", len(Ls) - 1)
    if len(edges) >= 2:
        ctx.distinct_add(("fit", N, K, tuple(edges), tuple(wts), assortative, w_prior, mode, D_given, seed))
    if idx % 150 < 3:
        ctx.sample({"kind": "fit", **{k: v for k, v in wit().items() if k not in ("u", "w", "extra")}})
