"""C16: Hy-MMSBM sampler — every yielded hypergraph is valid, respects the conditioning, and the
sequence is reproducible from the seed.  A wrapper on _mcmc_step watches the chain state after
every step (diagnostic); the postcondition on each yielded hypergraph decides."""
import logging
from collections import Counter

import numpy as np

from .. import history
from ..battery import call, _Raised

TIERS = {"quick": 300, "thorough": 8000}
WATCHDOG_S = {"quick": 1200, "thorough": 10000}
RULE = ("one case = one sampler configuration: mode by index mod 4: 0,1 = started from an initial hypergraph (>=2 hyperedges of "
        "sizes 2-5, int/str/gap labels), 2 = conditioned on a degree and a size sequence with equal totals (realisable or not), "
        "3 = sampled from the model; burn-in/thinning in {0,1,10,200}; 3-4 samples drawn and the run repeated with an equal "
        "sampler to compare. non-trivial = at least one accepted MCMC move was observed and >=2 hyperedges yielded; distinct = "
        "by (mode, parameters, seed)")
DECIDING = ["C16:sample-valid", "C16:conditioning", "C16:reproducible"]
ASSUMPTIONS = ["an exception raised while the sampler builds its initial configuration is counted as 'refused', not as a violation",
               "initial hypergraphs have no size-1 hyperedges (kappa is undefined for them)"]
logging.disable(logging.CRITICAL)


def gen_params(rng, N):
    K = rng.randint(1, 3)
    nr = np.random.default_rng(rng.randrange(2**32))
    u = nr.random((N, K)) * rng.choice([0.5, 1.0, 2.0]) + 0.01
    if rng.random() < 0.3:
        u[nr.random((N, K)) < 0.2] = 0.0
    w = nr.random((K, K)) * rng.choice([0.5, 2.0, 10.0])
    w = np.triu(w, 0) + np.triu(w, 1).T
    if rng.random() < 0.4:
        w = np.diag(np.diag(w))
    return u, w


def other_interpreter_case(ctx, rng, idx):
    """Two samplers with the same parameters and seed in two INTERPRETER RUNS whose string hashing differs (PYTHONHASHSEED 1 and
    2), started from a hypergraph with string labels: the sequence of samples is a function of the parameters and the seed,
    not of the order in which some set or dict of labels / hyperedges happens to iterate."""
    import json
    import os
    import subprocess
    import sys

    ctx.event("same-sampler-in-two-interpreter-runs")
    labels = ["n%02d" % i for i in range(rng.randint(6, 9))]
    es = set()
    while len(es) < rng.randint(5, 9):
        es.add(tuple(sorted(rng.sample(labels, rng.choice([2, 2, 3, 3, 4])))))
    payload = json.dumps({"labels": labels, "edges": sorted(es), "seed": rng.randrange(1, 10**6), "burn": rng.choice([5, 50]), "thin": rng.choice([1, 10]), "K": 2,
                          "useed": rng.randrange(10**6)})
    code = ("import json,sys,numpy as np,hypergraphx as hgx;from hypergraphx.generation.hy_mmsbm_sampling import HyMMSBMSampler;d=json.loads(sys.stdin.read());"
            "r=np.random.default_rng(d['useed']);N=len(d['labels']);u=r.random((N,d['K']))+0.05;w=np.eye(d['K'])*2+0.3;"
            "h=hgx.Hypergraph([tuple(e) for e in d['edges']]);[h.add_node(n) for n in d['labels']];"
            "s=HyMMSBMSampler(u=u,w=w,burn_in_steps=d['burn'],intermediate_steps=d['thin'],seed=d['seed']);it=s.sample(initial_hyg=h);"
            "out=[sorted((sorted(map(str,e)),int(g.get_weight(e))) for e in g.get_edges()) for g in (next(it) for _ in range(3))];print(json.dumps(out))")
    outs = []
    for hs_ in ("1", "2"):
        env = dict(os.environ, PYTHONHASHSEED=hs_, PYTHONPATH=os.environ.get("HGX_VERIF_REPO", "/repo"))
        try:
            pr = subprocess.run([sys.executable, "-c", code], input=payload, capture_output=True, text=True, timeout=300, env=env)
        except subprocess.TimeoutExpired:
            ctx.inconclusive_case("sampler-subprocess-timeout")
            return
        if pr.returncode != 0:
            ctx.check("C16:reproducible", False, "C16:initial:sampler-failed-in-a-fresh-interpreter", lambda: {"stderr": pr.stderr[-500:], "input": payload})
            return
        outs.append(pr.stdout.strip().splitlines()[-1])
    ctx.check("C16:reproducible", outs[0] == outs[1], "C16:initial:same-parameters-and-seed-different-samples:across-interpreter-runs",
              lambda: {"input": payload, "run(PYTHONHASHSEED=1)": outs[0][:300], "run(PYTHONHASHSEED=2)": outs[1][:300]})
    ctx.distinct_add(("two-interpreters", payload))


def run_case(ctx, rng, idx):
    import hypergraphx as hgx
    from hypergraphx.generation import hy_mmsbm_sampling as hs

    if idx in (9, 17) or (ctx.tier == "thorough" and idx % 1000 == 9):
        return other_interpreter_case(ctx, rng, idx)

    mode = ["initial", "initial", "sequences", "model", "initial", "deg-only", "sequences", "dim-only"][idx % 8]
    exact_dyadic = mode == "initial" or rng.random() < 0.65  # False: dyadic interactions through the CLT approximation as well
    burn = rng.choice([0, 1, 10, 200])
    thin = rng.choice([0, 1, 10, 200])
    seed = rng.randrange(2**31) if idx % 16 != 3 else 0  # (0 is a seed like any other)
    n_samples = rng.randint(3, 4)
    labels = None
    init_edges = None
    init_weights = None
    deg_seq = dim_seq = None
    if mode == "initial":
        uni = rng.choice(["small", "gaps", "str", "bigneg"])
        labels = list(history.UNIVERSES[uni])
        rng.shuffle(labels)
        labels = labels[: rng.randint(3, 8)]
        big = idx in (0, 1) or (ctx.tier == "thorough" and idx % 400 == 8)
        wide = idx == 4 or (ctx.tier == "thorough" and idx % 400 == 12)
        if big:
            ctx.event("big-initial-hypergraph")
            labels = [7 * i - 50 for i in range(rng.randint(25, 45))]
        if wide:
            # 70 nodes, hyperedges of 2 to 35 nodes, a chain that cannot move (no burn-in, no thinning): every hyperedge of the
            # initial hypergraph must come back (normalisation constants of the large sizes are astronomically large)
            ctx.event("wide-initial-hypergraph")
            labels = list(range(70))
            burn = thin = 0
        es = set()
        for _ in range(40 if not (big or wide) else 400):
            s = min(rng.choice([2, 2, 3, 3, 4, 5]) if not wide else rng.choice([2, 3, 5, 9, 17, 28, 35]), len(labels))
            es.add(frozenset(rng.sample(labels, s)))
            if len(es) >= (rng.randint(2, 10) if not (big or wide) else rng.randint(60, 120) if big else 14):
                break
        if len(es) < 2:
            return
        init_edges = sorted(es, key=lambda e: sorted(map(repr, e)))
        h0 = hgx.Hypergraph([tuple(e) for e in init_edges], weighted=rng.random() < 0.3, weights=None)
        # the starting hypergraph itself may be weighted, weight 0 included: conditioning is on its hyperedges
        init_weights = [rng.choice([0, 1, 2, 0.5]) for _ in init_edges] if rng.random() < 0.3 else None
        for n in labels:
            if rng.random() < 0.3:
                h0.add_node(n)
        node_labels = list(h0.get_nodes())
        N = len(node_labels)
    else:
        N = rng.randint(4, 9)
        node_labels = list(range(N))
        if mode in ("sequences", "deg-only", "dim-only"):
            dim_seq = {}
            for s in rng.sample(range(2, min(5, N) + 1), rng.randint(1, min(3, N - 1))):
                dim_seq[s] = rng.randint(1, 4)
            if sum(dim_seq.values()) < 2:
                dim_seq[min(dim_seq)] += 1
            total = sum(s * c for s, c in dim_seq.items())
            # degree sequence with the same total: realisable (spread) or not (concentrated)
            deg = np.zeros(N, dtype=int)
            if rng.random() < 0.6:
                for _ in range(total):
                    deg[rng.randrange(N)] += 1
            else:
                deg[0] = total - min(total, 2)
                deg[1] = total - deg[0]
            if rng.random() < 0.3 and N >= 5:
                # cannot be realised greedily, and the shortage shows in the FIRST size class, not the last one
                big = rng.randint(3, min(4, N - 1))
                c2 = rng.randint(2, 3)
                dim_seq = {big: 1, 2: c2}
                total = big + 2 * c2
                deg = np.zeros(N, dtype=int)
                deg[0] = total - total // 2
                deg[1] = total // 2
            deg_seq = deg
            # only one of the two sequences handed over: the sampler draws the other one from the model
            if mode == "deg-only":
                dim_seq = None
            elif mode == "dim-only":
                deg_seq = None
    rescale = mode in ("sequences", "deg-only", "dim-only") and rng.random() < 0.3
    warm = mode == "sequences" and not rescale and rng.random() < 0.35
    interleave = mode == "initial" and rng.random() < 0.25
    # the starting hypergraph OBJECT was already handed to this sampler once, with one hyperedge different, and was then edited in
    # place (one removal, one insertion: same numbers of nodes and hyperedges) into the intended starting point
    warm_init = None
    if mode == "initial" and not interleave and rng.random() < 0.3:
        e0 = init_edges[0]
        for _ in range(20):
            alt = frozenset(rng.sample(node_labels, len(e0)))
            if alt not in set(init_edges):
                warm_init = alt
                break
    u, w = gen_params(rng, N)
    max_size = rng.choice([None, rng.randint(max(2, max((len(e) for e in (init_edges or [])), default=2), max(dim_seq or {2: 0})), N)])

    pred = mode == "initial" and max_size is not None and warm_init is None and not interleave
    if pred and rng.random() < 0.85:
        u = u * 4.0  # large Poisson means: a wrong normalisation constant shows in the integer weights
        if True:
            burn = 0  # the first thing the sampler evaluates is then what the previous sampler evaluated last (the list of sizes)

    def wit(extra=None):
        return {"mode": mode, "N": N, "u": u.tolist() if N <= 12 else None, "w": w.tolist(), "max_hye_size": max_size, "burn_in": burn, "thinning": thin, "seed": seed,
                "initial": None if init_edges is None else [sorted(e, key=repr) for e in init_edges] if len(init_edges) <= 30 else len(init_edges),
                "deg_seq": None if deg_seq is None else deg_seq.tolist(), "dim_seq": dim_seq, "allow_rescaling": rescale, "exact_dyadic_sampling": exact_dyadic, "sampler_used_before_for_another_pair": warm, "second_generator_interleaved": interleave, "extra": repr(extra)[:900]}

    # ---- chain monitor ------------------------------------------------------------------------
    chain = {"steps": 0, "accepted": 0, "bad": None, "ref": None}
    orig_step = getattr(hs.HyMMSBMSampler, "_mcmc_step", None)  # private: observed when present, never required

    def step_wrapped(self, *a, **k):
        hye_list = a[0] if a and isinstance(a[0], list) else k.get("hye_list")
        before = None
        try:
            if isinstance(hye_list, list):
                if chain["ref"] is None:
                    chain["ref"] = (Counter(map(len, hye_list)), Counter(n for e in hye_list for n in e))
                before = [frozenset(e) for e in hye_list]
        except Exception:
            before = None
        r = orig_step(self, *a, **k)
        chain["steps"] += 1
        try:
            if before is not None:
                if [frozenset(e) for e in hye_list] != before:
                    chain["accepted"] += 1
                if chain["bad"] is None:
                    if any(not isinstance(e, set) or any(not (0 <= int(n) < self._model.N) for n in e) for e in hye_list):
                        chain["bad"] = "hyperedge-not-a-set-of-node-indices"
                    elif Counter(map(len, hye_list)) != chain["ref"][0]:
                        chain["bad"] = "size-multiset-changed"
                    elif Counter(n for e in hye_list for n in e) != chain["ref"][1]:
                        chain["bad"] = "degree-vector-changed"
        except Exception as e:  # the monitor must not change what the sampler does
            chain["bad"] = chain["bad"] or ("monitor-error:" + type(e).__name__)
        return r

    def draw():
        s = hs.HyMMSBMSampler(u=u.copy(), w=w.copy(), max_hye_size=max_size, burn_in_steps=burn, intermediate_steps=thin, seed=seed,
                              **({} if exact_dyadic else {"exact_dyadic_sampling": False}))
        if mode == "initial":
            if init_weights is not None:
                hh = hgx.Hypergraph([tuple(e) for e in init_edges], weighted=True, weights=list(init_weights))
            else:
                hh = hgx.Hypergraph([tuple(e) for e in init_edges])
            for n in node_labels:
                hh.add_node(n)
            if warm_init is not None:
                w0_ = hh.get_weight(tuple(init_edges[0]))
                hh.remove_edge(tuple(init_edges[0]))
                hh.add_edge(tuple(warm_init), weight=w0_ if hh.is_weighted() else None)
                next(s.sample(initial_hyg=hh))
                hh.remove_edge(tuple(warm_init))
                hh.add_edge(tuple(init_edges[0]), weight=w0_ if hh.is_weighted() else None)
                chain.update(steps=0, accepted=0, bad=None, ref=None)
                yielded.clear()
            it = s.sample(initial_hyg=hh)
        elif mode == "sequences":
            if warm:
                # the same sampler object was already used for another (realisable) pair of sequences: what it reports for
                # THIS pair must not be left over from that call
                k0 = N // 2
                d0 = np.array([1.0] * (2 * k0) + [0.0] * (N - 2 * k0))
                next(s.sample(deg_seq=d0, dim_seq={2: k0}))
                chain.update(steps=0, accepted=0, bad=None, ref=None)
                yielded.clear()
            it = s.sample(deg_seq=deg_seq.copy().astype(float), dim_seq=dict(dim_seq), allow_rescaling=rescale)
        elif mode == "deg-only":
            it = s.sample(deg_seq=deg_seq.copy().astype(float), allow_rescaling=rescale)
        elif mode == "dim-only":
            it = s.sample(dim_seq=dict(dim_seq), allow_rescaling=rescale)
        else:
            it = s.sample()
        out = []
        it2 = None
        if interleave and mode == "initial" and len(node_labels) >= 4:
            # a second generator of the SAME sampler, started from another hypergraph and advanced in turns with the first:
            # each generated sequence is conditioned on its own starting point
            foreign = ["q%d" % i for i in range(len(node_labels))] if not isinstance(node_labels[0], str) else list(range(7000, 7000 + len(node_labels)))
            other = hgx.Hypergraph([tuple(foreign[:2]), tuple(foreign[1:4])])
            for n in foreign:
                other.add_node(n)
            it2 = s.sample(initial_hyg=other)
        for _ in range(n_samples):
            out.append(next(it))
            if it2 is not None:
                next(it2)
        return s, out

    orig_routine = getattr(hs.HyMMSBMSampler, "_mcmc_routine", None)
    yielded = []

    def routine_wrapped(self, *a, **k):
        for lst in orig_routine(self, *a, **k):
            try:
                fs = [frozenset(e) for e in lst]
                yielded.append({"n": len(fs), "coincided": len(set(fs)) != len(fs)})
            except Exception:
                yielded.append({"n": -1, "coincided": True})  # unreadable: nothing is concluded from it
            yield lst

    if orig_routine is not None:
        hs.HyMMSBMSampler._mcmc_routine = routine_wrapped
    else:
        ctx.note("probe-unavailable:_mcmc_routine")
    if orig_step is not None:
        hs.HyMMSBMSampler._mcmc_step = step_wrapped
    else:
        ctx.note("probe-unavailable:_mcmc_step")
    if pred:
        # a sampler over MORE nodes (nine extra isolated ones), same explicit maximum size and the same list of hyperedge sizes, ran
        # right before the first of the two equal samplers
        try:
            with np.errstate(all="ignore"):
                extra_nodes = ["zz%d" % i for i in range(9)] if isinstance(node_labels[0], str) else [10**7 + i for i in range(9)]
                u0, w0 = gen_params(rng, N + 9)
                s0 = hs.HyMMSBMSampler(u=u0, w=w0, max_hye_size=max_size, burn_in_steps=burn, intermediate_steps=thin, seed=seed)
                hp = hgx.Hypergraph([tuple(e) for e in init_edges])
                for n in node_labels + extra_nodes:
                    hp.add_node(n)
                next(s0.sample(initial_hyg=hp))
            ctx.event("a-sampler-over-more-nodes-ran-right-before")
        except Exception as e:
            ctx.note("predecessor-sampler-raised:" + type(e).__name__)
        chain.update(steps=0, accepted=0, bad=None, ref=None)  # (the probes saw the predecessor too: what they recorded is dropped)
        yielded.clear()
    try:
        with np.errstate(all="ignore"):
            r = call(draw)
    finally:
        if orig_step is not None:
            hs.HyMMSBMSampler._mcmc_step = orig_step
        if orig_routine is not None:
            hs.HyMMSBMSampler._mcmc_routine = orig_routine
    yielded_first = list(yielded)
    if isinstance(r, _Raised):
        # which phase raised?  building the initial configuration (refused) vs the chain / output
        if chain["steps"] == 0 and mode != "initial":
            ctx.note(f"refused:{mode}:{type(r.e).__name__}")
            ctx.exc("sample", r.e)
            return
        ctx.check("C16:sample-valid", False, f"C16:{mode}:sample-raised:{type(r.e).__name__}", lambda: wit(r))
        return
    sampler, samples = r
    expected_steps = burn + thin * n_samples
    if chain["steps"] == expected_steps:
        ctx.tick("C16:mcmc-step-observed")
    else:  # the number of calls of a private method is not part of the property: recorded, not judged
        ctx.note("probe:mcmc-step-count-differs-from-burn_in+thinning*samples")
    ctx.event("mcmc-steps", chain["steps"])
    ctx.event("mcmc-accepted", chain["accepted"])
    if chain["bad"]:
        ctx.note("diagnostic:chain:" + chain["bad"])
    Dmax = max_size if max_size else N
    # conditioning
    cond_deg = cond_size = None
    if mode == "initial":
        cond_deg = Counter(n for e in init_edges for n in e)
        cond_size = Counter(map(len, init_edges))
    elif mode in ("sequences", "deg-only", "dim-only"):
        # the conditioning clauses are stated for "a degree AND a size sequence": with only one of them handed over
        # the other is drawn by the sampler, and only the validity and reproducibility clauses are judged
        if mode == "sequences":
            cond_size = Counter(dim_seq)
            if sampler.matching_sequences:
                cond_deg = Counter({i: int(d) for i, d in enumerate(deg_seq)})
        ctx.event(f"{mode}:matching_sequences:" + str(sampler.matching_sequences))
    obs_seq = []
    for j, g in enumerate(samples):
        E = [tuple(e) for e in g.get_edges()]
        W = [g.get_weight(e) for e in E]
        obs_seq.append(sorted((tuple(sorted(map(repr, e))), int(x)) for e, x in zip(E, W)))

        def w2(extra=None, j=j, E=E, W=W):
            return dict(wit(extra), sample_index=j, sample=[(list(map(repr, e)), int(x)) for e, x in zip(E, W)][:30])

        ctx.check("C16:sample-valid", type(g).__name__ == "Hypergraph" and g.is_weighted() is True, f"C16:{mode}:sample-not-weighted", w2)
        ctx.check("C16:sample-valid", all(isinstance(x, (int, np.integer)) and x > 0 for x in W), f"C16:{mode}:weight-not-positive-integer", w2)
        ctx.check("C16:sample-valid", len({frozenset(e) for e in E}) == len(E) and all(len(set(e)) == len(e) for e in E), f"C16:{mode}:repeated-hyperedge-or-node", w2)
        ctx.check("C16:sample-valid", all(len(e) >= 2 for e in E), f"C16:{mode}:hyperedge-smaller-than-2", w2)
        if mode in ("model", "deg-only"):  # sizes drawn from the model: bounded by its maximum size
            ctx.check("C16:sample-valid", all(len(e) <= Dmax for e in E), f"C16:{mode}:hyperedge-larger-than-max-size", w2)
        ctx.check("C16:sample-valid", set(n for e in E for n in e) <= set(node_labels) and set(g.get_nodes()) <= set(node_labels), f"C16:{mode}:unknown-node", w2)
        deg = Counter(n for e in E for n in e)
        size = Counter(map(len, E))
        if cond_size is not None:
            ctx.check("C16:conditioning", all(size[s] <= cond_size.get(s, 0) for s in size), f"C16:{mode}:size-count-exceeds-conditioned", lambda: w2((dict(size), dict(cond_size))))
        if cond_deg is not None:
            ctx.check("C16:conditioning", all(deg[n] <= cond_deg.get(n, 0) for n in deg), f"C16:{mode}:degree-exceeds-conditioned", lambda: w2((dict(deg), dict(cond_deg))))
        no_coincidence = (not interleave) and j < len(yielded_first) and not yielded_first[j]["coincided"]
        if interleave and cond_size is not None and all(c == 1 for c in cond_size.values()):
            no_coincidence = True  # all conditioned sizes are different: two sampled hyperedges cannot coincide
        if cond_size is not None and no_coincidence and mode == "initial":
            # the chain's own output had no two equal hyperedges: nothing may be missing from the sample
            ctx.check("C16:conditioning", len(E) == sum(cond_size.values()), f"C16:{mode}:no-two-hyperedges-coincided-but-some-are-missing",
                      lambda: w2((len(E), sum(cond_size.values()))))
        if cond_size is not None and no_coincidence and mode == "sequences" and sampler.matching_sequences:
            ctx.check("C16:conditioning", len(E) == sum(cond_size.values()), f"C16:{mode}:no-two-hyperedges-coincided-but-some-are-missing",
                      lambda: w2((len(E), sum(cond_size.values()))))
        if cond_size is not None and len(E) == sum(cond_size.values()):
            ctx.check("C16:conditioning", +size == +cond_size, f"C16:{mode}:no-merge-but-size-counts-differ", lambda: w2((dict(size), dict(cond_size))))
            if cond_deg is not None:
                ctx.check("C16:conditioning", +deg == +cond_deg, f"C16:{mode}:no-merge-but-degrees-differ", lambda: w2((dict(deg), dict(cond_deg))))
            ctx.event("sample-without-merge")
        elif cond_size is not None:
            ctx.event("sample-with-merge-or-drop")
    # ---- reproducibility --------------------------------------------------------------------------
    if pred:
        # another sampler ran in between: other parameters, same explicit maximum size, another hypergraph (whatever is remembered
        # between samplers at module level now belongs to that one)
        try:
            with np.errstate(all="ignore"):
                u3, w3 = gen_params(rng, N)
                s3 = hs.HyMMSBMSampler(u=u3, w=w3, max_hye_size=max_size, burn_in_steps=0, intermediate_steps=1, seed=seed + 1)
                h3 = hgx.Hypergraph([tuple(node_labels[:2]), tuple(node_labels[1:3])])
                for n in node_labels:
                    h3.add_node(n)
                next(s3.sample(initial_hyg=h3))
            ctx.event("another-sampler-ran-between-the-two-equal-ones")
        except Exception as e:
            ctx.note("intermediate-sampler-raised:" + type(e).__name__)
    with np.errstate(all="ignore"):
        r2 = call(draw)
    if isinstance(r2, _Raised):
        ctx.check("C16:reproducible", False, f"C16:{mode}:second-equal-sampler-raised:{type(r2.e).__name__}", lambda: wit(r2))
    else:
        seq2 = [sorted((tuple(sorted(map(repr, e))), int(g.get_weight(e))) for e in g.get_edges()) for g in r2[1]]
        ctx.check("C16:reproducible", seq2 == obs_seq, f"C16:{mode}:same-parameters-and-seed-different-samples", lambda: wit((obs_seq[:1], seq2[:1])))
    if chain["accepted"] >= 1 and any(len(o) >= 2 for o in obs_seq):
        ctx.distinct_add((mode, u.tobytes(), w.tobytes(), burn, thin, seed, repr(init_edges), repr(dim_seq)))
    if idx % 60 < 4:
        ctx.sample({k: v for k, v in wit().items() if k not in ("u", "w", "extra")})
