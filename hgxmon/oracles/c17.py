"""C17: Hypergraph-MT and hypergraph spectral clustering — valid, reproducible output; EM ascent
per realisation (trace monitor flags truncation/clipping events); returned log-likelihood equals
the definition (elementary symmetric polynomials by DP) when nothing is truncated."""
import contextlib
import io
import math

import numpy as np

from .. import history
from ..battery import call, _Raised

TIERS = {"quick": 200, "thorough": 8000}
WATCHDOG_S = {"quick": 1500, "thorough": 12000}
RULE = ("one case = one hypergraph (4-10 nodes from any label universe, 2-14 hyperedges of sizes 2-5, isolated nodes, "
        "weighted or not) x one configuration (K 2-4, seed, n_realizations 1-3, max_iter 1-40, normalizeU, baseline_r0, "
        "truncation thresholds default or (0, 1e300)); HypergraphMT.fit and HySC.fit are each run twice with the same seed. "
        "non-trivial = >=2 EM iterations recorded; distinct = by (hypergraph, configuration)")
DECIDING = ["C17:mt-output", "C17:mt-ascent", "C17:mt-definition", "C17:hysc", "C17:reproducible"]
ASSUMPTIONS = ["K does not exceed the number of non-isolated nodes (k-means needs that many points); no size-1 hyperedges",
               "ascent is demanded on EM steps without a truncation/clipping event (entries forced to 0 by min_value_par or to 100 by max_value_par); such steps are counted and excused"]


def quiet(fn, *a, **k):
    with contextlib.redirect_stdout(io.StringIO()), contextlib.redirect_stderr(io.StringIO()):
        return fn(*a, **k)


def esp(x, m):
    """elementary symmetric polynomials e_0..e_m of the entries of x (DP)"""
    e = np.zeros(m + 1)
    e[0] = 1.0
    for v in x:
        for j in range(m, 0, -1):
            e[j] += v * e[j - 1]
    return e


def definition_loglik(u, w, edges_idx, weights, D):
    K = u.shape[1]
    ll = 0.0
    for e, a in zip(edges_idx, weights):
        s = sum(w[len(e) - 2, k] * np.prod(u[list(e), k]) for k in range(K))
        if s <= 0:
            return None
        ll += a * math.log(s)
    for k in range(K):
        E = esp(u[:, k], D)
        for d in range(2, D + 1):
            ll -= w[d - 2, k] * E[d]
    return ll


def gen(rng, mode=None):
    import hypergraphx as hgx

    if mode == "big":
        from ..gen import big_hypergraph

        return big_hypergraph(rng, weighted=rng.random() < 0.4, sizes=(2, 2, 3, 3, 4, 5), n=rng.randint(25, 45), m=rng.randint(60, 140))
    if mode == "wide":  # beyond 64 nodes (isolated ones included), sizes interleaved, real-valued weights
        from ..gen import big_hypergraph

        h = big_hypergraph(rng, weighted=True, sizes=(2, 3, 4, 2, 3), n=rng.randint(66, 90), m=rng.randint(120, 180), hub=False)
        for e in list(h.get_edges())[::3]:
            h.set_weight(e, rng.choice([0.4, 1.5, 2.75, 3, 0.25]))
        return h
    if mode == "single":
        labels = rng.sample(list(history.UNIVERSES[rng.choice(["small", "gaps", "str"])]), rng.randint(3, 6))
        h = hgx.Hypergraph([tuple(sorted(labels[: rng.randint(2, len(labels))]))])
        for n in labels:
            if rng.random() < 0.4:
                h.add_node(n)
        return h

    uni = rng.choice(["small", "gaps", "str", "bigneg", "npint"])
    labels = list(history.UNIVERSES[uni])
    if len(labels) < 10:
        labels = labels + ([x + 1000 for x in labels] if uni != "str" else [x + "_" for x in labels])
    rng.shuffle(labels)
    labels = labels[: rng.randint(4, 10)]
    weighted = rng.random() < 0.4
    real_w = rng.random() < 0.5  # real-valued weights (the model is defined for any non-negative A_e)
    zero_w = rng.random() < 0.25
    es = {}
    for _ in range(rng.randint(2, 14)):
        s = min(rng.choice([2, 2, 2, 3, 3, 4, 5]), len(labels))
        e = tuple(sorted(rng.sample(labels[: max(s, len(labels) - rng.randint(0, 2))], s)))
        es[e] = (rng.choice([0.4, 1.5, 2.75, 0.25, 3, 1]) if real_w else rng.randint(1, 4)) if weighted else 1
        if weighted and zero_w and rng.random() < 0.35:
            es[e] = 0  # a hyperedge of weight 0 is present: its nodes are not isolated
    if weighted and zero_w and rng.random() < 0.6 and len(es) >= 3:
        # one node ALL of whose hyperedges have weight 0 (it still belongs to hyperedges: not isolated), the others keep weight
        n0 = rng.choice(sorted({v for e in es for v in e}, key=repr))
        if any(n0 not in e for e in es):
            for e in es:
                es[e] = 0 if n0 in e else (es[e] or 1)
    h = hgx.Hypergraph(list(es), weighted=weighted, weights=list(es.values()) if weighted else None)
    for n in labels:
        if rng.random() < 0.5:
            h.add_node(n)
    if rng.random() < 0.35:  # a removal somewhere in the history (internal hyperedge ids get gaps); content unchanged
        e = rng.choice(list(h.get_edges()))
        w_ = h.get_weight(e)
        h.remove_edge(e)
        h.add_edge(e, weight=w_ if weighted else None)
    return h


FORCED = {  # witness inputs of the open findings, re-confirmed on every run through the same monitors
    1: {"nodes": ["10", "10_", "E1_", "N2_"], "edges": [["10", "10_", "E1_", "N2_"], ["10_", "N2_"], ["10_", "E1_", "N2_"], ["10", "10_"], ["10", "E1_", "N2_"]], "weights": [4, 4, 1, 3, 2], "weighted": True, "K": 3, "seed": 587302, "cfg": {"n_realizations": 3, "max_iter": 20, "min_value_par": 0.0, "max_value_par": 1e+300}, "normalizeU": False, "baseline": True},
    2: {"nodes": ["10", "E_", "N2", "zz_"], "edges": [["10", "E_", "N2", "zz_"], ["10", "E_", "N2"], ["E_", "N2"], ["E_", "N2", "zz_"]], "weights": [1, 1, 1, 1], "weighted": False, "K": 4, "seed": 641609, "cfg": {"n_realizations": 1, "max_iter": 40, "min_value_par": 0.0, "max_value_par": 1e+300}, "normalizeU": False, "baseline": True},
    3: {"nodes": [-8589934592, -1, 3, 999, 1003], "edges": [[-8589934592, 3, 999], [-1, 3, 999], [-8589934592, -1, 999], [-8589934592, -1, 3, 999, 1003], [-1, 999], [-8589934592, -1, 3, 999], [-8589934592, 3, 999, 1003], [999, 1003]], "weights": [4, 3, 4, 1, 2, 3, 2, 4], "weighted": True, "K": 4, "seed": 53724, "cfg": {"n_realizations": 2, "max_iter": 40}, "normalizeU": False, "baseline": True},
    4: {"nodes": [0, 1, 6, 1003, 1006, 1007], "edges": [[0, 6, 1003, 1006, 1007], [0, 1003], [0, 6, 1003], [1003, 1006, 1007], [0, 1, 1003], [1, 6, 1003]], "weights": [1, 1, 1, 1, 1, 1], "weighted": False, "K": 4, "seed": 117698, "cfg": {"n_realizations": 3, "max_iter": 40}, "normalizeU": False, "baseline": True},
    6: {"nodes": [-15, 2, 7, 1000, 1006], "edges": [[1000, 1006], [2, 7, 1000, 1006], [7, 1000], [1006], [2, 1006], [2, 1000], [2, 1000, 1006], [2, 7, 1000]], "weights": [2, 5, 3, 4, 4, 2, 2, 2], "weighted": True, "K": 4, "seed": 85911, "cfg": {"n_realizations": 2, "max_iter": 20, "min_value_par": 0.0, "max_value_par": 1e+300}, "normalizeU": False, "baseline": False},
    5: {"nodes": ["10", "10_", "E", "E_", "N2_", "a", "b", "b_", "zz_"], "edges": [["10", "zz_"], ["10", "b"], ["E", "a", "b", "b_", "zz_"], ["10", "N2_", "a", "b"], ["10_", "b_", "zz_"], ["E", "E_"], ["10", "10_", "N2_"]], "weights": [4, 4, 3, 1, 1, 2, 2], "weighted": True, "K": 4, "seed": 851359, "cfg": {"n_realizations": 1, "max_iter": 1, "min_value_par": 0.0, "max_value_par": 1e+300}, "normalizeU": True, "baseline": False},
}


def many_nodes_hysc_case(ctx, rng, idx):
    """(Two spectral fits on ~2100 nodes, several seconds.)  A hypergraph far beyond 2000 nodes that falls
    apart into hundreds of components, so that the low end of the Laplacian spectrum is highly degenerate; the clauses
    for HySC (one community per non-isolated node, none for isolated ones, same seed -> same result) do not depend on size."""
    import hypergraphx as hgx
    from hypergraphx.communities.hy_sc.model import HySC

    ctx.event("2100-node-disconnected-input")
    n_comp = 700
    edges = [(3 * i, 3 * i + 1, 3 * i + 2) for i in range(n_comp)] + [(3 * i, 3 * i + 1) for i in range(0, n_comp, 7)]
    h = hgx.Hypergraph(edges)
    iso = [3 * n_comp + j for j in range(5)]
    h.add_nodes(iso)
    N, K, seed = 3 * n_comp + 5, 3, rng.randrange(10**6)

    def wit(x=None):
        return {"nodes": N, "components": n_comp, "K": K, "seed": seed, "extra": repr(x)[:300]}

    a = call(quiet, HySC(seed=seed, n_realizations=1).fit, h, K=K)
    b = call(quiet, HySC(seed=seed, n_realizations=1).fit, h, K=K)
    if isinstance(a, _Raised) or isinstance(b, _Raised):
        ctx.check("C17:hysc", False, f"C17:HySC.fit:raised:{type((a if isinstance(a, _Raised) else b).e).__name__}", lambda: wit((a, b)))
        return
    X = np.asarray(a)
    ok = X.shape == (N, K) and set(np.unique(X)) <= {0.0, 1.0}
    ctx.check("C17:hysc", ok, "C17:HySC:not-a-0/1-matrix-of-shape-NxK", wit)
    if ok:
        ctx.check("C17:hysc", bool((X[: 3 * n_comp].sum(axis=1) == 1).all()), "C17:HySC:non-isolated-node-without-exactly-one-community", wit)
        ctx.check("C17:hysc", bool((X[3 * n_comp:].sum(axis=1) == 0).all()), "C17:HySC:isolated-node-assigned", wit)
    ctx.check("C17:reproducible", np.array_equal(X, np.asarray(b)), "C17:HySC:same-seed-different-result", lambda: wit(int((X != np.asarray(b)).any(axis=1).sum())))
    ctx.distinct_add(("many-nodes-hysc", seed))


def run_case(ctx, rng, idx):
    if idx == 17 or (ctx.tier == "thorough" and idx % 4000 == 17):
        return many_nodes_hysc_case(ctx, rng, idx)
    mode = ("big" if idx == 7 or (ctx.tier == "thorough" and idx % 300 == 11) else
            "wide" if idx == 8 or (ctx.tier == "thorough" and idx % 300 == 13) else "single" if idx % 25 == 9 else None)
    if mode:
        ctx.event(mode + "-input")
    h = gen(rng, mode)
    if mode == "wide":  # fixed configuration: untruncated, unnormalised (every clause of the statement applies), both baselines
        for baseline in (True, False):
            evaluate(ctx, rng, idx, h, 0, force=dict(K=2, no_trunc=True, normalizeU=False, baseline=baseline, max_iter=10, n_realizations=1))
        return
    if idx % 7 == 4 and idx not in FORCED and mode is None:
        # many realisations stopped after 20-25 iterations: some have converged, some have not, and their final values lie close
        # together - the returned value is the LARGEST final value of the table whatever the convergence flags say
        ctx.event("eight-realisations-with-mixed-convergence")
        evaluate(ctx, rng, idx, h, 0, force=dict(K=2, no_trunc=rng.random() < 0.5, normalizeU=False, baseline=rng.random() < 0.5, max_iter=rng.choice([20, 25]), n_realizations=8))
        return
    evaluate(ctx, rng, idx, h, 0)
    if idx not in FORCED and idx % 3 == 0:
        # the same Hypergraph object fitted again after an in-place edit that keeps node and hyperedge counts
        from ..mutate import same_count_edit

        edges = list(h.get_edges())
        old = rng.choice(edges)
        nodes = list(h.get_nodes())
        for _ in range(20):
            new = tuple(sorted(rng.sample(nodes, min(len(nodes), rng.randint(2, 5)))))
            if not h.check_edge(new):
                w_ = h.get_weight(old)
                h.remove_edge(old)
                h.add_edge(new, weight=w_ if h.is_weighted() else None)
                if rng.random() < 0.5:
                    # ... and one node leaves while another one (sorting elsewhere) arrives: same number of nodes, other node set
                    lonely = [n for n in h.get_nodes() if not h.get_incident_edges(n)]
                    cand = [x for x in (lonely or nodes)]
                    gone = rng.choice(cand)
                    newcomer = (min(nodes) - 17) if not isinstance(nodes[0], str) else "~" + str(gone)
                    try:
                        keep = h.copy()
                        h.remove_node(gone, keep_edges=True)
                        h.add_node(newcomer)
                        if not any(len(e) >= 2 for e in h.get_edges()) or any(len(e) < 2 for e in h.get_edges()):
                            h = keep  # (inputs with size-1 hyperedges are only run as the witness of the open finding)
                    except Exception:
                        h = keep
                ctx.event("re-evaluated-after-in-place-edit")
                evaluate(ctx, rng, idx, h, 1)
                break


def evaluate(ctx, rng, idx, h, phase, force=None):
    from hypergraphx.communities.hypergraph_mt import model as mt
    from hypergraphx.communities.hy_sc.model import HySC

    if phase:
        idx = -1  # never a forced witness on the second pass
    nodes = sorted(h.get_nodes())
    row = {n: i for i, n in enumerate(nodes)}
    edges = [tuple(e) for e in h.get_edges()]
    weights = [h.get_weight(e) for e in edges]
    edges_idx = [tuple(row[n] for n in e) for e in edges]
    N, D = len(nodes), max(len(e) for e in edges)
    in_edge = set(n for e in edges for n in e)
    iso = [row[n] for n in nodes if n not in in_edge]
    non_iso = [row[n] for n in nodes if n in in_edge]
    K = rng.randint(2, min(4, len(non_iso)))
    seed = rng.randrange(10**6)
    cce = rng.choice([1, 1, 1, 1, 2, 3, 4])  # how often the log-likelihood is evaluated and recorded in the training table
    cfg = dict(n_realizations=rng.randint(1, 3), max_iter=rng.choice([1, 2, 5, 10, 20, 40]), check_convergence_every=cce, verbose=False)
    no_trunc = rng.random() < 0.5
    if no_trunc:
        cfg.update(min_value_par=0.0, max_value_par=1e300)
    normalizeU = rng.random() < 0.4
    baseline = rng.random() < 0.6
    if force:
        K, normalizeU, baseline, no_trunc = force["K"], force["normalizeU"], force["baseline"], force["no_trunc"]
        cfg.update(max_iter=force["max_iter"], n_realizations=force["n_realizations"])
        if no_trunc:
            cfg.update(min_value_par=0.0, max_value_par=1e300)
        else:
            cfg.pop("min_value_par", None)
            cfg.pop("max_value_par", None)
    if idx in FORCED:
        import hypergraphx as hgx

        f = FORCED[idx]
        h = hgx.Hypergraph([tuple(e) for e in f["edges"]], weighted=f["weighted"], weights=f["weights"] if f["weighted"] else None)
        h.add_nodes(f["nodes"])
        nodes = sorted(h.get_nodes())
        row = {n: i for i, n in enumerate(nodes)}
        edges = [tuple(e) for e in h.get_edges()]
        weights = [h.get_weight(e) for e in edges]
        edges_idx = [tuple(row[n] for n in e) for e in edges]
        N, D = len(nodes), max(len(e) for e in edges)
        in_edge = set(n for e in edges for n in e)
        iso = [row[n] for n in nodes if n not in in_edge]
        non_iso = [row[n] for n in nodes if n in in_edge]
        K, seed, normalizeU, baseline = f["K"], f["seed"], f["normalizeU"], f["baseline"]
        cfg = dict(check_convergence_every=1, verbose=False, **f["cfg"])
        no_trunc = cfg.get("min_value_par") == 0.0

    def wit(extra=None):
        return {"nodes": list(map(repr, nodes)) if len(nodes) <= 20 else len(nodes), "edges": [list(map(repr, e)) for e in edges] if len(edges) <= 30 else len(edges),
                "weights": weights if len(edges) <= 30 else None, "K": K, "seed": seed,
                "cfg": cfg, "normalizeU": normalizeU, "baseline_r0": baseline, "extra": repr(extra)[:900]}

    # ---------------- HySC ------------------------------------------------------------------------
    def hysc():
        return quiet(HySC(seed=seed, n_realizations=3).fit, h, K=K)

    r = call(hysc)
    if isinstance(r, _Raised):
        ctx.check("C17:hysc", False, f"C17:HySC.fit:raised:{type(r.e).__name__}", lambda: wit(r))
    else:
        X = np.asarray(r)
        ok = X.shape == (N, K) and set(np.unique(X)) <= {0.0, 1.0}
        ctx.check("C17:hysc", ok, "C17:HySC:not-a-0/1-matrix-of-shape-NxK", lambda: wit(X.tolist()))
        if ok:
            ctx.check("C17:hysc", all(X[i].sum() == 1 for i in non_iso), "C17:HySC:non-isolated-node-without-exactly-one-community", lambda: wit(X.tolist()))
            ctx.check("C17:hysc", all(X[i].sum() == 0 for i in iso), "C17:HySC:isolated-node-assigned", lambda: wit(X.tolist()))
        r2 = call(hysc)
        ctx.check("C17:reproducible", not isinstance(r2, _Raised) and np.array_equal(np.asarray(r2), X), "C17:HySC:same-seed-different-result", wit)
        inst = HySC(seed=seed, n_realizations=3)  # one instance, run twice
        a = call(quiet, inst.fit, h, K=K)
        b = call(quiet, inst.fit, h, K=K)
        ok2 = not isinstance(a, _Raised) and not isinstance(b, _Raised) and np.array_equal(np.asarray(a), np.asarray(b)) and np.array_equal(np.asarray(a), X)
        ctx.check("C17:reproducible", ok2, "C17:HySC:same-instance-second-run-differs", wit)

    # ---------------- Hypergraph-MT with a trace monitor ----------------------------------------------
    trace = {"real": -1, "events": {}, "psi_bad": 0, "em": 0}
    o_init, o_em = getattr(mt.HypergraphMT, "_initialize_psiOmega", None), getattr(mt.HypergraphMT, "_update_em", None)  # private: watched when present

    def init_wrapped(self, *a, **k):
        trace["real"] += 1
        trace["events"][trace["real"]] = []
        return o_init(self, *a, **k)

    def em_wrapped(self, *a, **k):
        try:
            before = self.u.copy()
        except Exception:
            return o_em(self, *a, **k)
        r_ = o_em(self, *a, **k)
        try:
            _em_observe(self, before)
        except Exception as e:  # the monitor must not change what fit() does
            trace["monitor_error"] = type(e).__name__
        return r_

    def _em_observe(self, before):
        after = self.u
        trunc = bool(np.any((before > 0) & (after == 0)) or np.any((after == 100.0) & (before != 100.0)))
        pos = after[after > 0]
        trace["events"][trace["real"]].append(trunc)
        trace.setdefault("minpos", {}).setdefault(trace["real"], []).append(float(pos.min()) if pos.size else 0.0)
        trace.setdefault("wmax", {}).setdefault(trace["real"], []).append(float(np.nanmax(self.w)) if self.w.size else 0.0)
        trace["em"] += 1
        # diagnostic: psiOmega[d,k] == e_{d+1}(u[:,k])
        for k in range(self.K):
            E = esp(after[:, k], self.D)
            if not np.allclose(self.psiOmega[:, k], E[1:], rtol=1e-6, atol=1e-9):
                trace["psi_bad"] += 1
                break

    o_lag = mt.HypergraphMT.__dict__.get("enforce_constraint_u")
    if not isinstance(o_lag, staticmethod):
        o_lag = None

    def lag_wrapped(num, den):
        lam = o_lag.__func__(num, den)
        with np.errstate(all="ignore"):
            comp = num / (lam + den)
            resid = float(np.sum(comp) - 1)
        trace["lagrange"] = trace.get("lagrange", 0) + 1
        # unreliable solve: not converged, or converged to a root beyond a pole (negative memberships,
        # which check_u then turns positive with abs())
        if not (abs(resid) <= 1e-8) or np.any(comp < 0):
            trace["lagrange_failed"] = trace.get("lagrange_failed", 0) + 1
        return lam

    def fit():
        m = mt.HypergraphMT(**cfg)
        out = quiet(m.fit, h, K=K, seed=seed, normalizeU=normalizeU, baseline_r0=baseline)
        return m, out

    neighbour_fit = False
    if baseline and iso and idx not in FORCED and not isinstance(nodes[0], str) and all(isinstance(n, int) for n in nodes):
        # right before: the same fit on a hypergraph with the SAME hyperedges (same order), K and seed whose isolated node carries
        # another label, sorting to the other end (so every row of the membership matrix belongs to another node)
        import hypergraphx as hgx

        x = nodes[iso[0]]
        y = (min(nodes) - 17) if iso[0] > 0 else (max(nodes) + 17)
        ha = hgx.Hypergraph(edges, weighted=h.is_weighted(), weights=list(weights) if h.is_weighted() else None)
        ha.add_nodes([n for n in nodes if n != x] + [y])
        with np.errstate(all="ignore"):
            call(quiet, mt.HypergraphMT(**cfg).fit, ha, K=K, seed=seed, normalizeU=normalizeU, baseline_r0=baseline)
        neighbour_fit = True
        ctx.event("fit-of-a-hypergraph-differing-only-in-an-isolated-label-ran-right-before")
    hooked = o_init is not None and o_em is not None
    if hooked:
        mt.HypergraphMT._initialize_psiOmega, mt.HypergraphMT._update_em = init_wrapped, em_wrapped
    else:
        ctx.note("probe-unavailable:_initialize_psiOmega/_update_em")
    if o_lag is not None:
        mt.HypergraphMT.enforce_constraint_u = staticmethod(lag_wrapped)
    try:
        with np.errstate(all="ignore"):
            r = call(fit)
    finally:
        if hooked:
            mt.HypergraphMT._initialize_psiOmega, mt.HypergraphMT._update_em = o_init, o_em
        if o_lag is not None:
            mt.HypergraphMT.enforce_constraint_u = o_lag
    if isinstance(r, _Raised):
        import traceback as _tb

        where = _tb.extract_tb(r.e.__traceback__)[-1].name
        mech = f"C17:HypergraphMT.fit:raised:{type(r.e).__name__}"
        if isinstance(r.e, AssertionError) and where == "_update_psiOmega":
            mech += ":psiOmega-bookkeeping-assert(after-NaN-membership)"
        ctx.check("C17:mt-output", False, mech, lambda: wit((r, where)))
        return
    m, (u, w, maxL) = r
    ctx.event("em-iterations-observed", trace["em"])
    if trace["psi_bad"]:
        ctx.note("diagnostic:psiOmega-drifted-from-elementary-symmetric-polynomials", trace["psi_bad"])
    u, w = np.asarray(u), np.asarray(w)
    ok = u.shape == (N, K) and np.all(np.isfinite(u)) and np.all(u >= 0)
    ctx.check("C17:mt-output", bool(ok), "C17:MT:u-not-finite-nonnegative-NxK", lambda: wit(u.tolist()))
    okw = w.shape == (D - 1, K) and np.all(np.isfinite(w)) and np.all(w >= 0)
    ctx.check("C17:mt-output", bool(okw), "C17:MT:w-not-finite-nonnegative-(D-1)xK", lambda: wit(w.tolist()))
    if ok:
        ctx.check("C17:mt-output", all(not u[i].any() for i in iso), "C17:MT:isolated-node-has-membership", lambda: wit(u.tolist()))
        if normalizeU:
            rows = [i for i in range(N) if u[i].any()]
            # mechanism classifier for the open finding: during this fit the Lagrange-multiplier root finder
            # was observed (at the hook) to return an unconverged value or a root beyond a pole
            mech = "C17:MT:normalizeU-row-does-not-sum-to-one"
            if trace.get("lagrange_failed"):
                mech += ":lagrange-multiplier-solve-unreliable"
            # entries below min_value_par are set to 0 AFTER the row has been normalised (that is what the threshold
            # means), so a row may fall short of 1 by up to (K-1)*min_value_par
            rtol_ = 1e-6 + (K - 1) * cfg.get("min_value_par", 1e-5)
            ctx.check("C17:mt-output", all(abs(u[i].sum() - 1) <= rtol_ for i in rows), mech,
                      lambda: wit({"row_sums": u.sum(axis=1).tolist(), "lagrange_calls": trace.get("lagrange"), "unconverged": trace.get("lagrange_failed")}))
            ctx.event("lagrange-multiplier-solves", trace.get("lagrange", 0))
            ctx.event("lagrange-multiplier-unconverged", trace.get("lagrange_failed", 0))
    ti = m.train_info
    finals = {}
    seqs = {}
    for r_, grp in ti.groupby("realization"):
        g = grp.sort_values("iter")
        seqs[int(r_)] = [float(x) for x in g["loglik"]]
        finals[int(r_)] = seqs[int(r_)][-1]
    ctx.check("C17:mt-output", len(finals) == cfg["n_realizations"] and maxL == max(finals.values()), "C17:MT:maxL-is-not-the-best-final-loglik-of-train_info", lambda: wit((maxL, finals)))
    # ---- ascent ----------------------------------------------------------------------------------
    sparse_table = cfg.get("check_convergence_every", 1) != 1
    if sparse_table:
        # the table holds every c-th iteration only: the returned value must still be its best final entry (judged above);
        # step-by-step ascent and agreement with the definition at the returned parameters are judged on full tables
        ctx.event("table-recorded-every-c-iterations")
    if not normalizeU and not sparse_table:
        for r_, seq in seqs.items():
            ev = trace["events"].get(r_, [])
            for t in range(1, len(seq)):
                a, b = seq[t - 1], seq[t]
                if t < len(ev) and ev[t]:
                    ctx.event("ascent-step-excused(truncation)")
                    continue
                tol = 1e-8 * (1 + abs(a))
                if b >= a - tol:
                    ctx.tick("C17:mt-ascent")
                elif b > a - 100 * tol:
                    ctx.inconclusive_case("band:C17:mt-ascent")
                else:
                    mp = trace.get("minpos", {}).get(r_, [])
                    tiny = min(mp[max(0, t - 1): t + 1]) if mp[max(0, t - 1): t + 1] else 1.0
                    if any(len(e) == 1 for e in edges):
                        # a hyperedge with a single node: its affinity row is looked up at index size-2 = -1, i.e. the row of
                        # the LARGEST size, while the polynomial bookkeeping starts at size 2
                        mech = "C17:MT:loglik-decreased:input-has-a-size-1-hyperedge(affinity-row-index--1)"
                    elif any(ev[:t]):
                        # a membership was forced to 0 / 100 earlier in this realisation: the trajectory is no
                        # longer an unconstrained EM trajectory, yet the step itself had no such event
                        mech = "C17:MT:loglik-decreased:after-earlier-truncation-or-clipping-in-the-realisation"
                    elif cfg.get("min_value_par") == 0.0 and tiny < 1e-15:
                        # memberships below the 1e-20 stabilising epsilon that the evaluated likelihood adds to u
                        mech = "C17:MT:loglik-decreased:memberships-below-the-1e-20-stabilising-epsilon(min_value_par=0)"
                    elif max(trace.get("wmax", {}).get(r_, [0.0])[max(0, t - 1): t + 1] or [0.0]) >= 1e10:
                        # an affinity entry has diverged (its symmetric polynomial -> 0): the leave-one-out
                        # polynomials obtained by subtraction lose all relative accuracy and are multiplied by it
                        mech = "C17:MT:loglik-decreased:cancellation-in-leave-one-out-polynomials-with-diverging-affinity(w>=1e10)"
                    else:
                        mech = "C17:MT:loglik-decreased-within-realisation"
                    ctx.check("C17:mt-ascent", False, mech,
                              lambda: wit({"realization": r_, "iter": t, "loglik": seq[max(0, t - 3): t + 2], "truncation_events": ev, "smallest_positive_membership": tiny,
                                           "max_w": trace.get("wmax", {}).get(r_, [])[max(0, t - 1): t + 1]}))
    else:
        ctx.event("ascent-not-claimed(normalizeU)")
    # ---- definition ------------------------------------------------------------------------------
    if cfg.get("min_value_par") == 0.0 and ok and okw and not sparse_table:
        ref = definition_loglik(u, w, edges_idx, weights, D)
        if ref is None:
            ctx.note("definition-undefined(zero-probability-hyperedge)")
        else:
            # condition-aware tolerance: the library maintains the symmetric polynomials incrementally
            # (absolute rounding ~1e-10 after a few hundred updates) and multiplies them by w, which can be 1e8
            tol = 1e-6 * (1 + abs(ref)) + 1e-9 * float(np.abs(w).sum()) * max(1.0, float(u.sum(axis=0).max()))
            if abs(maxL - ref) <= tol:
                ctx.tick("C17:mt-definition")
            elif abs(maxL - ref) < 100 * tol:
                ctx.inconclusive_case("band:C17:mt-definition")
            else:
                ctx.check("C17:mt-definition", False, "C17:MT:maxL-differs-from-loglikelihood-by-definition", lambda: wit((maxL, ref, trace["psi_bad"])))
    # ---- reproducibility ----------------------------------------------------------------------------
    if neighbour_fit:
        # ... and an unrelated fit in between the two equal ones
        import hypergraphx as hgx

        hc = hgx.Hypergraph([tuple(nodes[:2]), tuple(nodes[1:3]) if len(nodes) >= 3 else tuple(nodes[:2])])
        with np.errstate(all="ignore"):
            call(quiet, mt.HypergraphMT(**cfg).fit, hc, K=2, seed=seed + 1, normalizeU=False, baseline_r0=True)
    with np.errstate(all="ignore"):
        r2 = call(fit)
    if isinstance(r2, _Raised):
        ctx.check("C17:reproducible", False, f"C17:MT:second-run-raised:{type(r2.e).__name__}", lambda: wit(r2))
    else:
        _, (u2, w2, L2) = r2
        ctx.check("C17:reproducible", np.array_equal(u2, u) and np.array_equal(w2, w) and L2 == maxL, "C17:MT:same-seed-different-result", lambda: wit((maxL, L2)))
    if max(len(s) for s in seqs.values()) >= 2:
        ctx.distinct_add((tuple(edges), tuple(weights), K, seed, repr(sorted(cfg.items())), normalizeU, baseline))
    if idx % 40 < 3:
        ctx.sample({k: v for k, v in wit().items() if k != "extra"})
