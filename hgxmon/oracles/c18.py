"""C18: random walks (transition matrix, stationary state, densities, sampled walks) and the
simplicial contagion (bounds, monotonicity, exact deterministic regimes) — postcondition oracles;
numpy.random.random is replaced by adversarial scripted streams for part of the contagion runs and
a sys.monitoring LINE probe inside the sweep records which branches each stream drove."""
import itertools

import numpy as np

from .. import history, probes
from ..battery import call, _Raised
from ..observe import npize

TIERS = {"quick": 800, "thorough": 100000}
WATCHDOG_S = {"quick": 900, "thorough": 7200}
RULE = ("case kinds by index mod 2: 0 = connected Hypergraph on 0..N-1 (N 2-9, sizes 2-5): transition matrix, stationary state, "
        "densities from random starts, 3 sampled walks; 1 = contagion on an arbitrary hypergraph (any labels, sizes 1-4, "
        "isolated nodes) x rate triples (all 8 deterministic ones + random rates) x initial conditions x horizons, under "
        "seeded and scripted random streams (all ~0, all ~1, alternating, values adjacent to the rates). non-trivial = "
        "(walk) >=2 hyperedges of different sizes or N>=4; (contagion) infection or recovery actually happened; distinct = by input")
DECIDING = ["C18:transition", "C18:stationary", "C18:density", "C18:walk", "C18:contagion-bounds", "C18:contagion-exact"]
ASSUMPTIONS = ["row-stochasticity to 1e-12, fixed point to 1e-9", "deterministic contagion reference: synchronous sweep reading the old state, 15 lines"]


def connected_hg(rng):
    import hypergraphx as hgx

    N = rng.randint(2, 9)
    nodes = list(range(N))
    h = hgx.Hypergraph(weighted=rng.random() < 0.2)
    # spanning structure first, then extras
    perm = nodes[:]
    rng.shuffle(perm)
    i = 1
    while i < N:
        s = min(rng.choice([2, 2, 3, 4, 5]), N)
        new = perm[i: i + s - 1]
        old = rng.sample(perm[:i], min(i, s - len(new)))
        e = tuple(sorted(set(new + old)))
        if len(e) >= 2:
            h.add_edge(e, weight=2 if h.is_weighted() else None)
        i += len(new)
    for _ in range(rng.randint(0, 6) if rng.random() < 0.7 else 0):  # sometimes nothing extra: fewer than N-1 hyperedges
        s = min(rng.choice([2, 2, 3, 4, 5]), N)
        e = tuple(sorted(rng.sample(nodes, s)))
        h.add_edge(e, weight=3 if h.is_weighted() else None)
    h.add_nodes(nodes)
    if rng.random() < 0.35:  # calls the library refuses, made before measuring (a refused call must leave no trace)
        from ..mutate import refused_calls

        refused_calls(rng, h)
    return h, N


def run_case(ctx, rng, idx):
    if idx in (1, 3, 5) or idx % 100 == 51:
        guided_contagion_case(ctx, rng, idx)
    elif idx % 2 == 0:
        walk_case(ctx, rng, idx)
    else:
        contagion_case(ctx, rng, idx)


def walk_case(ctx, rng, idx):
    from hypergraphx.dynamics import randwalk as rw

    if idx == 2 or (ctx.tier == "thorough" and idx % 700 == 10):
        from ..gen import big_hypergraph

        ctx.event("big-hypergraph")
        hb = big_hypergraph(rng, contiguous=True, connected=True, sizes=(2, 2, 3, 4, 5))
        walk_eval(ctx, rng, idx, hb, hb.num_nodes())
        return
    if idx == 8 or (ctx.tier == "thorough" and idx % 700 == 14):
        # one pair of nodes sharing 286 hyperedges of one size (0, 1 and every 3-subset of 13 further nodes)
        import itertools as _it
        import hypergraphx as hgx

        ctx.event("pair-in-286-hyperedges")
        hb = hgx.Hypergraph([(0, 1) + c for c in _it.combinations(range(2, 15), 3)])
        walk_eval(ctx, rng, idx, hb, 15)
        return
    if idx in (4, 6) or (ctx.tier == "thorough" and idx % 700 == 12):
        from ..gen import core_periphery

        ctx.event("core-periphery-hypergraph")
        hb = core_periphery(rng, connected_contiguous=True)
        walk_eval(ctx, rng, idx, hb, hb.num_nodes())
        return
    h, N = connected_hg(rng)
    walk_eval(ctx, rng, idx, h, N)
    from ..mutate import same_count_edit

    if same_count_edit(rng, h, keep_connected=True):  # same object again: a stale transition matrix shows here
        ctx.event("re-evaluated-after-in-place-edit")
        walk_eval(ctx, rng, idx, h, N)
    from ..mutate import degree_preserving_swap

    if rng.random() < 0.6 and degree_preserving_swap(rng, h, keep_connected=True):
        # four edits with no query in between that leave the node count, the hyperedge count, every degree and every size as
        # they were: whatever was remembered about the walk on this object is about another hypergraph now
        ctx.event("re-evaluated-after-a-degree-preserving-double-swap")
        walk_eval(ctx, rng, idx, h, N)
    es = list(h.get_edges())
    if len(es) > 1:  # a plain removal (no insertion afterwards) that keeps the hypergraph connected
        e = rng.choice(es)
        w = h.get_weight(e)
        h.remove_edge(e)
        from ..mutate import connected_ref as _cr

        if _cr(h) and len(h.get_nodes()) == N:
            ctx.event("re-evaluated-after-edge-removal")
            walk_eval(ctx, rng, idx, h, N)
    from ..mutate import connected_ref as _cr2

    if _cr2(h) and len(h.get_nodes()) == N and rng.random() < 0.3:  # the same hypergraph reached through other calls (copy of a copy / clear() and re-insertion)
        from ..mutate import second_order

        lab, g2 = second_order(rng, h)
        ctx.event("re-evaluated-on-" + lab)
        walk_eval(ctx, rng, idx, g2, N)


def walk_eval(ctx, rng, idx, h, N):
    from hypergraphx.dynamics import randwalk as rw

    edges = [tuple(e) for e in h.get_edges()]

    def wit(extra=None):
        return {"N": N, "edges": edges if len(edges) <= 40 else len(edges), "extra": repr(extra)[:800]}

    from ..mutate import connected_ref

    if not connected_ref(h):
        ctx.note("generator-produced-disconnected")
        return
    M = np.zeros((N, N))
    for e in edges:
        for i, j in itertools.permutations(e, 2):
            M[i, j] += len(e) - 1
    Kref = M / M.sum(axis=1, keepdims=True)
    r = call(rw.transition_matrix, h)
    if isinstance(r, _Raised):
        ctx.check("C18:transition", False, f"C18:transition_matrix:raised:{type(r.e).__name__}", lambda: wit(r))
        return
    K = np.asarray(r.todense())
    ctx.check("C18:transition", K.shape == (N, N) and np.all(K >= 0) and np.allclose(K.sum(axis=1), 1, rtol=0, atol=1e-12), "C18:transition_matrix:not-row-stochastic", lambda: wit(K.tolist()))
    ctx.check("C18:transition", K.shape == (N, N) and np.allclose(K, Kref, rtol=1e-12, atol=1e-15), "C18:transition_matrix:entries-not-proportional-to-sum(size-1)", lambda: wit((K.tolist(), Kref.tolist())))
    # stationary state
    r = call(rw.RW_stationary_state, h)
    if isinstance(r, _Raised):
        ctx.check("C18:stationary", False, f"C18:RW_stationary_state:raised:{type(r.e).__name__}", lambda: wit(r))
    else:
        pi = np.asarray(r, dtype=float).ravel()
        ok = pi.shape == (N,) and np.all(np.isfinite(pi)) and np.all(pi >= -1e-12) and abs(pi.sum() - 1) <= 1e-9
        ctx.check("C18:stationary", bool(ok), "C18:RW_stationary_state:not-a-probability-vector", lambda: wit(pi.tolist()))
        if ok:
            ctx.check("C18:stationary", np.allclose(pi @ Kref, pi, rtol=0, atol=1e-9), "C18:RW_stationary_state:not-fixed-by-transition-matrix", lambda: wit(pi.tolist()))
            ref = M.sum(axis=1) / M.sum()
            ctx.check("C18:stationary", np.allclose(pi, ref, rtol=0, atol=1e-9), "C18:RW_stationary_state:not-proportional-to-sum(size-1)^2", lambda: wit((pi.tolist(), ref.tolist())))
    # densities
    for _ in range(2):
        s0 = np.zeros(N)
        r_ = rng.random()
        if r_ < 0.25:
            s0[rng.randrange(N)] = 1.0
        elif r_ < 0.5:  # integer one-hot start (a perfectly good probability density)
            s0 = np.eye(N, dtype=int)[rng.randrange(N)]
        else:
            s0 = np.array([rng.random() for _ in range(N)])
            s0 /= s0.sum()
        T = rng.randint(0, 6)
        r = call(rw.random_walk_density, h, s0.copy() if rng.random() < 0.8 else s0.tolist(), npize(rng, T))
        if isinstance(r, _Raised):
            ctx.check("C18:density", False, f"C18:random_walk_density:raised:{type(r.e).__name__}", lambda: wit(r))
            continue
        ok = len(r) == T + 1 and np.allclose(r[0], s0)
        ctx.check("C18:density", ok, "C18:random_walk_density:length-or-start", lambda: wit(len(r)))
        for t in range(1, len(r)):
            ctx.check("C18:density", np.allclose(np.asarray(r[t]), np.asarray(r[t - 1]) @ Kref, rtol=0, atol=1e-12), "C18:random_walk_density:not-previous-times-K", lambda: wit(t))
            ctx.check("C18:density", abs(float(np.sum(r[t])) - 1) <= 1e-9, "C18:random_walk_density:does-not-sum-to-one", lambda: wit(t))
    # sampled walks
    for _ in range(3):
        s = rng.randrange(N)
        T = rng.randint(0, 12)
        np.random.seed(rng.randrange(2**31))
        r = call(rw.random_walk, h, s, T)
        if isinstance(r, _Raised):
            ctx.check("C18:walk", False, f"C18:random_walk:raised:{type(r.e).__name__}", lambda: wit(r))
            continue
        ok = len(r) == T + 1 and r[0] == s and all(0 <= int(x) < N for x in r)
        ctx.check("C18:walk", ok, "C18:random_walk:length-start-or-range", lambda: wit(list(map(int, r))))
        if ok:
            bad = [(int(a), int(b)) for a, b in zip(r, r[1:]) if M[int(a), int(b)] == 0]
            ctx.check("C18:walk", not bad, "C18:random_walk:step-between-nodes-sharing-no-hyperedge", lambda: wit(bad))
    if N >= 4 or len({len(e) for e in edges}) >= 2:
        ctx.distinct_add(("walk", N, tuple(sorted(edges))))
    if idx % 100 < 2:
        ctx.sample({"kind": "walk", "N": N, "edges": edges})


def reference_contagion(nodes, pairs_nb, triangles, I0, T, beta, betaD, mu):
    N = len(I0)
    out = np.zeros(T)
    I = dict(I0)
    out[0] = sum(I.values())
    t = 1
    while sum(I.values()) > 0 and t < T:
        J = dict(I)
        for n in nodes:
            if I[n] == 0:
                if beta == 1 and any(I[m] == 1 for m in pairs_nb[n]):
                    J[n] = 1
                elif betaD == 1 and any(I[a] == 1 and I[b] == 1 for a, b in triangles[n]):
                    J[n] = 1
            elif mu == 1:
                J[n] = 0
        I = J
        out[t] = sum(I.values())
        t += 1
    return out / N


class Stream:
    """scripted replacement for numpy.random.random()"""

    def __init__(self, kind, rates, rng):
        self.kind, self.rates, self.rng, self.n = kind, rates, rng, 0

    def __call__(self, *a, **k):
        self.n += 1
        if self.kind == "zeros":
            return 0.0
        if self.kind == "ones":
            return float(np.nextafter(1.0, 0.0))
        if self.kind == "alternate":
            return 0.0 if self.n % 2 else float(np.nextafter(1.0, 0.0))
        r = self.rng.choice(self.rates)  # adjacent to a rate
        return float(min(max(r + self.rng.choice([-1e-12, 0.0, 1e-12]), 0.0), np.nextafter(1.0, 0.0)))


def guided_contagion_case(ctx, rng, idx):
    """Model-guided workload: the REFERENCE simulator searches (a few thousand mutations of a small population) for inputs whose
    deterministic trajectory is unusual - the longest run of equal, non-zero infected counts that is still followed by a change
    (the infected SET keeps moving while its size stands still), late changes, long transients - and the library is then run on
    exactly those inputs.  Random inputs almost never have such trajectories; any shortcut that infers 'nothing will change any
    more' from the counts is wrong precisely there."""
    import hypergraphx as hgx
    from hypergraphx.dynamics import contagion as cg

    T = rng.choice([20, 30])

    def tables(nodes, edges):
        pairs_nb = {n: set().union(*[set(e) for e in edges if len(e) == 2 and n in e] or [set()]) - {n} for n in nodes}
        tri = {n: [tuple(set(e) - {n}) for e in edges if len(e) == 3 and n in e] for n in nodes}
        return pairs_nb, tri

    def plateau(traj, N):
        c = np.rint(traj * N).astype(int)
        best, run = 0, 1
        for t in range(1, len(c)):
            if c[t] == c[t - 1]:
                run += 1
            else:
                if c[t - 1] > 0 and run > best:
                    best = run
                run = 1
        return best

    for rates in ((1, 1, 1), (1, 0, 1), (0, 1, 1), (1, 1, 1)):
        nodes = list(range(rng.randint(6, 10)))
        sizes = [2, 2, 3, 3] if rates[1] else [2, 2, 2, 3]
        edges = {frozenset(rng.sample(nodes, rng.choice(sizes))) for _ in range(rng.randint(4, 8))}
        I0 = {n: int(rng.random() < 0.3) for n in nodes}

        def ev(E, I):
            p_, t_ = tables(nodes, [tuple(e) for e in E])
            return plateau(reference_contagion(nodes, p_, t_, I, T, *rates), len(nodes))

        best = ev(edges, I0)
        for _ in range(1500):
            e2, i2 = set(edges), dict(I0)
            r = rng.random()
            if r < 0.35 and len(e2) > 2:
                e2.remove(rng.choice(sorted(e2, key=sorted)))
            elif r < 0.7:
                e2.add(frozenset(rng.sample(nodes, rng.choice(sizes))))
            else:
                n_ = rng.choice(nodes)
                i2[n_] = 1 - i2[n_]
            sc = ev(e2, i2)
            if sc >= best:
                edges, I0, best = e2, i2, sc
        ctx.event(f"guided-contagion:longest-plateau-followed-by-a-change:{min(best, 12)}")
        # the library on the input the model found (labels shifted / renamed: the dynamics does not depend on them)
        ren = rng.choice([lambda n: n, lambda n: 3 * n - 7, lambda n: "v%02d" % n])
        lab = {n: ren(n) for n in nodes}
        order = list(nodes)
        rng.shuffle(order)
        h = hgx.Hypergraph()
        for n in order:
            h.add_node(lab[n])
        for e in sorted(edges, key=sorted):
            h.add_edge(tuple(lab[n] for n in e))
        lnodes = list(h.get_nodes())
        ledges = [frozenset(e) for e in h.get_edges()]
        p_, t_ = tables(lnodes, [tuple(e) for e in ledges])
        LI0 = {lab[n]: v for n, v in I0.items()}
        ref = reference_contagion(lnodes, p_, t_, LI0, T, *rates)

        def wit(extra=None):
            return {"nodes": list(map(repr, lnodes)), "edges": [sorted(map(repr, e)) for e in ledges], "I0": {repr(k): v for k, v in LI0.items()}, "T": T,
                    "beta": rates[0], "beta_D": rates[1], "mu": rates[2], "plateau": best, "extra": repr(extra)[:700]}

        np.random.seed(rng.randrange(2**31))
        r = call(cg.simplicial_contagion, h, dict(LI0), T, *rates)
        if isinstance(r, _Raised):
            ctx.check("C18:contagion-exact", False, f"C18:simplicial_contagion:raised:{type(r.e).__name__}:guided", lambda: wit(r))
            continue
        x = np.asarray(r, dtype=float)
        ctx.check("C18:contagion-exact", x.shape == ref.shape and np.array_equal(x, ref), "C18:contagion:deterministic-trajectory-differs:guided", lambda: wit((x.tolist(), ref.tolist())))
        ctx.distinct_add(("guided", tuple(sorted(map(lambda e: tuple(sorted(e)), edges))), tuple(sorted(I0.items())), rates, T))


def contagion_case(ctx, rng, idx):
    import hypergraphx as hgx
    from hypergraphx.dynamics import contagion as cg

    uni = rng.choice(list(history.UNIVERSES))
    labels = list(history.UNIVERSES[uni])
    rng.shuffle(labels)
    labels = labels[: rng.randint(2, 8)]
    wtd = rng.random() < 0.35  # a weighted population: who is linked to whom decides the dynamics, the weights (0, fractions, 7) do not
    h = hgx.Hypergraph(weighted=wtd)
    for _ in range(rng.randint(1, 10)):
        s = min(rng.choice([1, 2, 2, 2, 3, 3, 3, 4]), len(labels))
        h.add_edge(tuple(rng.sample(labels, s)), weight=rng.choice([0, 0.25, 0.5, 1, 7]) if wtd else None)
    if wtd:
        ctx.event("contagion-on-a-weighted-hypergraph")
    for n in labels:
        if rng.random() < 0.4:
            h.add_node(n)
    if rng.random() < 0.3:
        # the population reached through other legal calls (a copy that was extended, metadata handed to members, ...):
        # the dynamics depends on who is linked to whom now, not on how the object got there
        from ..mutate import second_order

        lab, h = second_order(rng, h)
        ctx.event("contagion-on-" + lab)
    nodes = list(h.get_nodes())
    edges = [frozenset(e) for e in h.get_edges()]
    pairs_nb = {n: set().union(*[e for e in edges if len(e) == 2 and n in e] or [set()]) - {n} for n in nodes}
    triangles = {n: [tuple(e - {n}) for e in edges if len(e) == 3 and n in e] for n in nodes}
    configs = [(b, d, m) for b in (0, 1) for d in (0, 1) for m in (0, 1)]
    configs += [(rng.choice([0, 0.3, 1]), rng.choice([0, 0.5, 1]), rng.choice([0, 0.2, 1])) for _ in range(3)]
    configs += [(rng.random(), rng.random(), rng.random())]
    code = cg.simplicial_contagion.__code__
    happened = False
    for (beta, betaD, mu) in configs:
        I0 = {n: int(rng.random() < rng.choice([0.2, 0.5, 0.9])) for n in nodes}
        if rng.random() < 0.1:
            I0 = {n: 0 for n in nodes}
        elif rng.random() < 0.15:
            I0 = {n: 1 for n in nodes}  # everybody infected: absorbing only when mu = 0
        T = rng.choice([1, 2, 3, 6, 12])
        det = all(x in (0, 1) for x in (beta, betaD, mu))
        streams = ["seed"] if det and rng.random() < 0.5 else ["seed", rng.choice(["zeros", "ones", "alternate", "adjacent"])]
        for sk in streams:
            seed = rng.randrange(2**31)
            lines = set()

            def wit(extra=None):
                return {"nodes": list(map(repr, nodes)), "edges": [sorted(map(repr, e)) for e in edges], "I0": {repr(k): v for k, v in I0.items()},
                        "T": T, "beta": beta, "beta_D": betaD, "mu": mu, "stream": sk, "seed": seed, "extra": repr(extra)[:700]}

            orig = np.random.random
            stream = None
            try:
                if sk == "seed":
                    np.random.seed(seed)
                else:
                    stream = Stream(sk, [beta, betaD, mu], rng)
                    np.random.random = stream
                with probes.attached(code, "LINE", lambda frame, line: lines.add(line)):
                    r = call(cg.simplicial_contagion, h, dict(I0), T, beta, betaD, mu)
            finally:
                np.random.random = orig
            ctx.set_add("contagion-branch-lines", tuple(sorted(lines)))
            if stream is not None:
                ctx.event("scripted-random-draws", stream.n)
            if isinstance(r, _Raised):
                ctx.check("C18:contagion-bounds", False, f"C18:simplicial_contagion:raised:{type(r.e).__name__}", lambda: wit(r))
                continue
            x = np.asarray(r, dtype=float)
            f0 = sum(I0.values()) / len(I0)
            ctx.check("C18:contagion-bounds", x.shape == (T,) and np.all((x >= 0) & (x <= 1)), "C18:contagion:length-or-values-outside[0,1]", lambda: wit(x.tolist()))
            ctx.check("C18:contagion-bounds", x.size > 0 and x[0] == f0, "C18:contagion:does-not-start-at-initial-fraction", lambda: wit((x.tolist(), f0)))
            if mu == 0:
                ctx.check("C18:contagion-bounds", bool(np.all(np.diff(x) >= 0)), "C18:contagion:decreases-although-mu=0", lambda: wit(x.tolist()))
            if beta == 0 and betaD == 0:
                ctx.check("C18:contagion-bounds", bool(np.all(np.diff(x) <= 0)), "C18:contagion:increases-although-no-infection", lambda: wit(x.tolist()))
            if det:
                ref = reference_contagion(nodes, pairs_nb, triangles, I0, T, beta, betaD, mu)
                ctx.check("C18:contagion-exact", x.shape == ref.shape and np.array_equal(x, ref), "C18:contagion:deterministic-trajectory-differs", lambda: wit((x.tolist(), ref.tolist())))
            if x.size > 1 and np.any(np.diff(x) != 0):
                happened = True
    if happened:
        ctx.distinct_add(("contagion", tuple(sorted(map(lambda e: tuple(sorted(map(repr, e))), edges))), tuple(map(repr, nodes))))
    if idx % 100 < 3:
        ctx.sample({"kind": "contagion", "nodes": list(map(repr, nodes)), "edges": [sorted(map(repr, e)) for e in edges]})
