"""C19: metadata filters (all container types) and the statistically validated hypergraph."""
import json
import math
import os
import subprocess
import sys
from fractions import Fraction

import numpy as np

from .. import history
from ..battery import call, _Raised
from ..models import KEYS, Model, State, Flex, sorted_key, weq
from ..observe import npize, observe

TIERS = {"quick": 900, "thorough": 50000}
WATCHDOG_S = {"quick": 1200, "thorough": 9000}
RULE = ("case kinds by index mod 3: 0,1 = filter_hypergraph on the end state of a generated history (H, D, T, M round robin) with "
        "node/hyperedge metadata drawn from a small attribute pool; criteria dictionaries with 1-2 attributes, allowed-value "
        "lists that may contain None and attributes missing from some items; mode keep|remove, keep_edges both; 2 = get_svh on "
        "a hypergraph with positive integer weights (every 25th such case also with mp=True in a subprocess). non-trivial = "
        "(filter) something was removed and something survived; (svh) >=2 hyperedges of one size; distinct = by input and arguments")
DECIDING = ["C19:filter", "C19:svh"]
ASSUMPTIONS = ["an item matches a criterion iff metadata.get(attribute) is in the allowed list (missing attribute = None)",
               "reference p-value by exact rational binomial tail; rtol 1e-8"]
ATTRS = {"color": ["red", "blue", None, 1], "group": [0, 1, 2], "tag": ["x", ["l", 1], None]}


class NullCtx:
    def __getattr__(self, k):
        return lambda *a, **kw: True


def matches(md, crit):
    return all((md or {}).get(a) in vals for a, vals in crit.items())


def rand_md(rng):
    md = {}
    for a, vals in ATTRS.items():
        if rng.random() < 0.6:
            md[a] = rng.choice(vals)
    return md


def rand_criteria(rng):
    c = {}
    for a in rng.sample(list(ATTRS), rng.randint(1, 2)):
        pool = ATTRS[a] + (["missing-value"] if rng.random() < 0.2 else [])
        vals = rng.sample(pool, rng.randint(1, len(pool) - 1))
        if rng.random() < 0.12:  # no allowed value at all: nothing can satisfy this criterion (an empty collection is not 'unset')
            vals = []
        # "the value is among the allowed ones": the allowed values as any collection supporting `in`
        form = rng.random()
        hashable = all(not isinstance(v, (list, dict)) for v in ATTRS[a] + vals)  # `x in a_set` needs x hashable: sets only where every value is
        c[a] = vals if form < 0.6 else tuple(vals) if form < 0.75 or not hashable else set(vals) if form < 0.9 else frozenset(vals)
    return c


def run_case(ctx, rng, idx):
    if idx % 3 == 2:
        svh_case(ctx, rng, idx)
    else:
        filter_case(ctx, rng, idx)


def filter_case(ctx, rng, idx):
    from hypergraphx.filters import filter_hypergraph

    kind = "HDTM"[(idx // 3) % 4]
    cfg = history.Cfg(rng, kind)
    cfg.invalid_rate = 0.1  # refused calls are part of the build: they must leave no trace in what is measured
    cfg.avoid = {"copy", "clear"}
    cfg.n_ops = rng.randint(5, 25)
    try:
        live, _ = history.run_history(history.BuildCtx(ctx, "C19"), rng, cfg, battery_every=0)
    except Exception as e:
        ctx.note("build-failed:" + type(e).__name__)
        return
    h = live[0][0]
    K = KEYS[kind]
    from ..observe import lib_args

    S = observe(h)
    pool = []  # metadata dictionaries already handed over: clients attach ONE dictionary object to several items (a node and a
    # hyperedge included); nothing is edited afterwards, the filter only reads them
    share = rng.random() < 0.4

    def pick_md(rng_):
        if share and pool and rng_.random() < 0.4:
            return rng_.choice(pool)
        md_ = rand_md(rng_)
        pool.append(md_)
        return md_

    for n in S.nodes:
        md = pick_md(rng)
        if hasattr(h, "set_node_metadata"):
            h.set_node_metadata(n, md)
        else:
            for f in list(h.get_nodes(metadata=True)[n]):
                h.remove_attr_from_node_metadata(n, f)
            for f, v in md.items():
                h.set_attr_to_node_metadata(n, f, v)
    for k in S.edges:
        if K.size(k) == 0:
            continue
        md = pick_md(rng)
        a = lib_args(kind, k)
        if hasattr(h, "set_edge_metadata"):
            h.set_edge_metadata(*a, md)
        else:
            for f in list(h.get_edge_metadata(*a)):
                h.remove_attr_from_edge_metadata(*a, f)
            for f, v in md.items():
                h.set_attr_to_edge_metadata(*a, f, v)
    S = observe(h)
    ncrit = rand_criteria(rng) if rng.random() < 0.7 else None
    ecrit = rand_criteria(rng) if rng.random() < 0.7 or ncrit is None else None
    mode = rng.choice(["keep", "remove"])
    keep_edges = rng.random() < 0.5

    def wit(extra=None):
        return {"kind": kind, "object": S.describe(), "node_criteria": ncrit, "edge_criteria": ecrit, "mode": mode, "keep_edges": keep_edges, "extra": repr(extra)[:900]}

    r = call(filter_hypergraph, h, node_criteria=ncrit, edge_criteria=ecrit, mode=mode, keep_edges=keep_edges)
    if isinstance(r, _Raised):
        ctx.check("C19:filter", False, f"C19:filter_hypergraph({kind}):raised:{type(r.e).__name__}", lambda: wit(r))
        return
    P = []
    try:
        F = observe(h, P)
    except Exception as e:
        ctx.check("C19:filter", False, f"C19:filter_hypergraph({kind}):result-unobservable:{type(e).__name__}", lambda: wit(repr(e)))
        return
    # ---- expected -------------------------------------------------------------------------------
    survive_n = lambda md: True if ncrit is None else (matches(md, ncrit) if mode == "keep" else not matches(md, ncrit))
    survive_e = lambda md: True if ecrit is None else (matches(md, ecrit) if mode == "keep" else not matches(md, ecrit))
    removed = [n for n in S.nodes if not survive_n(S.nodes[n])]
    model = Model(kind)
    if removed:
        out = model.outcome(S, ("remove_nodes", {"ns": removed, "keep": keep_edges}))
        if out.unknown:
            ctx.inconclusive_case("model-branching-cap")
            return
        mids = out.states
    else:
        mids = [S.copy()]

    def admissible(mid):
        if set(F.nodes) != set(mid.nodes) or F.nodes != mid.nodes or bool(F.weighted) != bool(mid.weighted):
            return "nodes-or-node-metadata"
        alts = mid.edges if isinstance(mid, Flex) else {k: [v] for k, v in mid.edges.items()}
        opt = mid.optional if isinstance(mid, Flex) else set()
        if not set(F.edges) <= set(alts):
            return "unexpected-hyperedge"
        for k, al in alts.items():
            if k in F.edges:
                if not any(weq(F.edges[k][0], a[0]) and F.edges[k][1] == a[1] for a in al):  # merged weights are float sums: order of addition is free
                    return "surviving-hyperedge-weight-or-metadata-changed"
                if not survive_e(F.edges[k][1]):
                    return "hyperedge-that-fails-the-criteria-survived"
            else:
                if not (k in opt or any(not survive_e(a[1]) for a in al)):
                    return "hyperedge-that-satisfies-the-criteria-was-removed"
        return None

    reasons = [admissible(m) for m in mids]
    ok = any(r_ is None for r_ in reasons) and not P
    ctx.check("C19:filter", ok, f"C19:filter_hypergraph({kind}):" + str((reasons + P)[0] if not ok else ""), lambda: wit({"after": F.describe(), "removed_nodes": list(map(repr, removed))}))
    if (removed or len(F.edges) < len(S.edges)) and (F.nodes or F.edges):
        ctx.distinct_add((kind, S.freeze(), repr(ncrit), repr(ecrit), mode, keep_edges))
    ctx.event(f"filter:{kind}:{mode}:keep_edges={keep_edges}")
    if idx % 150 < 2:
        ctx.sample({k: v for k, v in wit().items() if k != "extra"})


# ---------------------------------------------------------------------------------------------------
def ref_pvalue(w, N, Ks):
    """P(Binomial(N, prod K_i / N) >= w), exactly, in integer arithmetic"""
    a = 1
    for k in Ks:
        a *= k
    b = N ** len(Ks)  # q = a / b
    if N > 20000:
        # exact integer arithmetic is out of reach here: sum the tail in the log domain (lgamma; absolute error in the
        # logarithm ~1e-10), from j = w upwards until the terms no longer matter
        q = float(Fraction(a, b))
        if q <= 0:
            return 1.0 if w <= 0 else 0.0
        if q >= 1:
            return 1.0
        lg = math.lgamma
        tot, j = 0.0, w
        while j <= N:
            t = math.exp(lg(N + 1) - lg(j + 1) - lg(N - j + 1) + j * math.log(q) + (N - j) * math.log1p(-q))
            tot += t
            if j > N * q and t < 1e-18 * tot:
                break
            j += 1
        return min(tot, 1.0)
    tail = 0
    for j in range(w, N + 1):
        tail += math.comb(N, j) * a**j * (b - a) ** (N - j)
    return float(Fraction(tail, b**N))


def svh_case(ctx, rng, idx):
    import hypergraphx as hgx
    from hypergraphx.filters import get_svh

    uni = rng.choice(["small", "gaps", "str", "bigneg"])
    labels = list(history.UNIVERSES[uni])
    rng.shuffle(labels)
    labels = labels[: rng.randint(3, 8)]
    weighted = rng.random() < 0.6
    es = {}
    for _ in range(rng.randint(1, 12)):
        s = min(rng.choice([1, 2, 2, 3, 3, 3, 4, 5]), len(labels))
        e = tuple(sorted(rng.sample(labels, s)))
        es[e] = rng.choice([1, 1, 2, 3, 5]) if weighted else 1
    if rng.random() < 0.4:
        # family aimed at the step-up rule: equal or near-equal heavy hyperedges of one size, so that a lower
        # rank can fail its threshold while a higher rank passes (ties, p in [bonf, 2*bonf))
        weighted = True
        es = {}
        n = rng.choice([2, 2, 3])
        pool = labels[:]
        rng.shuffle(pool)
        groups = [tuple(sorted(pool[i: i + n])) for i in range(0, len(pool) - n + 1, n)][: rng.randint(2, 3)]
        wbase = rng.randint(5, 30)
        for g in groups:
            es[g] = wbase + rng.choice([0, 0, 0, 1, 2])
        if len(labels) >= n and rng.random() < 0.5:
            e = tuple(sorted(rng.sample(labels, n)))
            es.setdefault(e, 1)
    fam = rng.random()
    if fam < 0.12:
        # heavy family: large hyperedges with large weights (products of the node counts beyond 2**63)
        weighted = True
        big = list(history.UNIVERSES["small"]) + [8, 9, 10, 11]
        es = {}
        for _ in range(rng.randint(1, 2)):
            e = tuple(sorted(rng.sample(big, rng.randint(8, 10))))
            es[e] = rng.randint(80, 160)
        if rng.random() < 0.5:
            es.setdefault(tuple(sorted(rng.sample(big, len(next(iter(es)))))), rng.randint(1, 5))
    elif fam < 0.3 and len(labels) >= 4:
        # targeted ties: disjoint equal-weight pairs whose common p-value lies in [bonf, 2*bonf)
        weighted = True
        groups = [tuple(sorted(labels[i: i + 2])) for i in range(0, len(labels) - 1, 2)][: rng.randint(2, 3)]
        n_a = len({v for g in groups for v in g})
        bonf = 0.01 / math.comb(n_a, 2)
        cand = []
        for w in range(2, 40):
            Nn = w * len(groups)
            p = ref_pvalue(w, Nn, [w, w])
            if bonf <= p < len(groups) * bonf:
                cand.append(w)
        if cand:
            w = rng.choice(cand)
            es = {g: w for g in groups}
    if idx == 5 or (ctx.tier == "thorough" and idx % 3000 == 5):
        # more than 100 000 occurrences of one size (the counts N and K_i are weight totals): the binomial tail in the
        # rare-event regime, where a Poisson limit is close but not equal
        ctx.event("svh:120000-occurrences")
        weighted, fam = True, 1.0
        es = {(1, 2): 40, (3, 4): 3, (5, 6): 60000, (7, 8): 60000, (1, 9, 10): 2}
    max_order = rng.choice([2, 3, 4, 5, 10]) if fam >= 0.12 else 10

    def judge(es, h, tagx=""):

        def wit(extra=None):
            return {"variant": tagx, "edges": {repr(e): w for e, w in es.items()}, "weighted": weighted, "max_order": max_order, "extra": repr(extra)[:900]}

        r = call(get_svh, h, max_order=npize(rng, max_order))
        if isinstance(r, _Raised):
            ctx.check("C19:svh", False, f"C19:get_svh:raised:{type(r.e).__name__}", lambda: wit(r))
            return
        by_size = {}
        for e, w in es.items():
            by_size.setdefault(len(e), {})[e] = w
        exp_sizes = sorted(n for n in by_size if 2 <= n <= max_order)
        ctx.check("C19:svh", sorted(int(k) for k in r.keys()) == exp_sizes, "C19:svh:sizes-reported", lambda: wit((sorted(r.keys()), exp_sizes)))
        got_all = {}
        for n in exp_sizes:
            if n not in r:
                continue
            df = r[n]
            edges_n = by_size[n]
            rows = [tuple(x) for x in df["edge"]]
            ctx.check("C19:svh", sorted(rows, key=repr) == sorted(edges_n, key=repr), "C19:svh:hyperedge-not-reported-exactly-once-under-its-size", lambda: wit((n, rows)))
            N = sum(edges_n.values())
            Kn = {}
            for e, w in edges_n.items():
                for v in e:
                    Kn[v] = Kn.get(v, 0) + w
            ps = {}
            for e_, p in zip(rows, df["pvalue"]):
                if e_ not in edges_n:
                    continue
                ref = ref_pvalue(edges_n[e_], N, [Kn[v] for v in e_])
                ps[e_] = float(p)
                err = abs(float(p) - ref)
                tol = 1e-8 * abs(ref) + 1e-300
                if err <= tol:
                    ctx.tick("C19:svh")
                elif err < 100 * tol:
                    ctx.inconclusive_case("band:C19:svh:pvalue")
                else:
                    ctx.check("C19:svh", False, "C19:svh:pvalue-differs-from-binomial-tail", lambda: wit((n, e_, float(p), ref)))
            # threshold recomputed from the reported p-values (step-up over k * 0.01 / C(n_a, n))
            n_a = len({v for e in edges_n for v in e})
            bonf = 0.01 / math.comb(n_a, n)
            srt = np.sort(np.array(list(df["pvalue"]), dtype=float))
            ks = np.arange(1, len(srt) + 1) * bonf
            below = ks[srt < ks]
            thr = below[-1] if len(below) else 0
            val = [bool(x) for x in df["fdr"]]
            exp_val = [bool(float(p) < thr) for p in df["pvalue"]]
            ctx.check("C19:svh", val == exp_val, "C19:svh:validated-set-is-not-{p<threshold}", lambda: wit((n, val, exp_val, thr)))
            pv = [float(p) for p in df["pvalue"]]
            mono = all(not (val[i] and not val[j] and pv[j] < pv[i]) for i in range(len(pv)) for j in range(len(pv)))
            ctx.check("C19:svh", mono, "C19:svh:validated-while-a-smaller-pvalue-is-not", lambda: wit((n, pv, val)))
            got_all[n] = {repr(e_): (float(p), bool(f)) for e_, p, f in zip(rows, df["pvalue"], df["fdr"])}

        return got_all

    h = hgx.Hypergraph(list(es), weighted=weighted, weights=list(es.values()) if weighted else None)
    got_all = judge(es, h)
    if got_all is None:
        return
    by_size = {}
    for e, w in es.items():
        by_size.setdefault(len(e), {})[e] = w

    def wit(extra=None):
        return {"edges": {repr(e): w for e, w in es.items()}, "weighted": weighted, "max_order": max_order, "extra": repr(extra)[:900]}

    ws_ = list(es.values())
    if weighted and len(set(ws_)) >= 2 and len(ws_) >= 2:
        # right after: the SAME hyperedges in the same order with the weights moved round by one place (same total weight) - on a
        # new object, and on the first object through set_weight; each is judged by itself against the binomial tail
        rot = ws_[1:] + ws_[:1]
        es2 = dict(zip(es, rot))
        ctx.event("svh:same-hyperedges-weights-rotated")
        h2 = hgx.Hypergraph(list(es2), weighted=True, weights=list(es2.values()))
        if judge(es2, h2, "weights-rotated(new object)") is None:
            return
        for e_, w_ in es2.items():
            h.set_weight(e_, w_)
        if judge(es2, h, "weights-rotated(same object, set_weight)") is None:
            return
        judge(es, hgx.Hypergraph(list(es), weighted=True, weights=list(es.values())), "original-weights-again")
    # mp=True in a subprocess with timeout (a dying Pool child would hang forever)
    if idx % 75 == 2:
        payload = json.dumps({"edges": [[list(e), w] for e, w in es.items()], "weighted": weighted, "max_order": max_order})
        code = ("import json,sys;import hypergraphx as hgx;from hypergraphx.filters import get_svh;d=json.loads(sys.stdin.read());"
                "h=hgx.Hypergraph([tuple(e) for e,w in d['edges']],weighted=d['weighted'],weights=[w for e,w in d['edges']] if d['weighted'] else None);"
                "r=get_svh(h,max_order=d['max_order'],mp=True);"
                "print(json.dumps({str(k):{repr(tuple(e)):(float(p),bool(f)) for e,p,f in zip(v['edge'],v['pvalue'],v['fdr'])} for k,v in r.items()}))")
        try:
            pr = subprocess.run([sys.executable, "-c", code], input=payload, capture_output=True, text=True, timeout=180, env=os.environ)
            if pr.returncode != 0:
                ctx.check("C19:svh", False, "C19:svh:mp=True-failed", lambda: wit(pr.stderr[-600:]))
            else:
                got_mp = {int(k): v for k, v in json.loads(pr.stdout.strip().splitlines()[-1]).items()}
                same = got_mp.keys() == got_all.keys() and all({k: tuple(v) for k, v in got_mp[n].items()} == got_all[n] for n in got_all)
                ctx.check("C19:svh", same, "C19:svh:mp=True-differs-from-mp=False", lambda: wit((got_mp, got_all)))
                ctx.event("svh:mp=True-compared")
        except subprocess.TimeoutExpired:
            ctx.inconclusive_case("svh-mp-subprocess-timeout")
    if any(len(v) >= 2 for n, v in by_size.items() if 2 <= n <= max_order):
        ctx.distinct_add(("svh", tuple(sorted(es.items(), key=repr)), max_order))
    if idx % 150 < 3:
        ctx.sample({k: v for k, v in wit().items() if k != "extra"})
