"""C20: centralities as functionals of the projections — independent line graph / bipartite graph
built from the public observation + networkx; expm for the sub-hypergraph centrality; eigen-equation
residuals for CEC/HEC; relabelling carries every centrality along (metamorphic pair)."""
import contextlib
import io
import itertools

import networkx as nx
import numpy as np
from scipy.linalg import expm

from .. import history
from ..battery import call, _Raised
from ..observe import observe
from .c08 import gen_hypergraph
from .c18 import connected_hg

TIERS = {"quick": 600, "thorough": 60000}
WATCHDOG_S = {"quick": 900, "thorough": 7200}
RULE = ("case kinds by index mod 4: 0 = s-betweenness/closeness of hyperedges (s in 1..3) and of nodes on a random Hypergraph "
        "(all label universes) + relabelled copy; 1 = averaged versions on a TemporalHypergraph (int and str labels, labels "
        "containing 'E'); 2 = sub-hypergraph centrality vs log diag expm(A) + relabelled copy; 3 = CEC and HEC on a connected "
        "3- or 4-uniform hypergraph on 0..N-1 for 3 numpy.random seeds + relabelled copy. non-trivial = >=2 hyperedges sharing "
        "a node; distinct = by input")
DECIDING = ["C20:s-edge", "C20:s-node", "C20:averaged", "C20:subhypergraph", "C20:cec", "C20:hec", "C20:relabel"]
ASSUMPTIONS = ["networkx betweenness/closeness are the reference functionals; comparisons to 1e-12 (exact graph algorithms)",
               "CEC residual <= 1e-5*lambda (up to 3e-5: inconclusive), HEC ratio spread <= 1e-3 relative, relabelled iterative centralities compared to 1e-4"]


class NullCtx:
    def __getattr__(self, k):
        return lambda *a, **kw: True


def quiet(fn, *a, **k):
    with contextlib.redirect_stdout(io.StringIO()):
        return fn(*a, **k)


def ref_line_graph(edges, s):
    g = nx.Graph()
    g.add_nodes_from(range(len(edges)))
    for a, b in itertools.combinations(range(len(edges)), 2):
        if len(edges[a] & edges[b]) >= s:
            g.add_edge(a, b)
    return g


def ref_bipartite(nodes, edges):
    g = nx.Graph()
    for n in nodes:
        g.add_node(("n", n))
    for j, e in enumerate(edges):
        g.add_node(("e", j))
        for n in e:
            g.add_edge(("e", j), ("n", n))
    return g


def dict_close(a, b, tol=1e-12):
    return set(a) == set(b) and all(abs(a[k] - b[k]) <= tol * (1 + abs(b[k])) for k in b)


def run_case(ctx, rng, idx):
    [static_case, temporal_case, subhg_case, eigen_case][idx % 4](ctx, rng, idx)


def edge_centralities(edges, s):
    g = ref_line_graph(edges, s)
    b, c = nx.betweenness_centrality(g), nx.closeness_centrality(g)
    return {edges[i]: b[i] for i in g}, {edges[i]: c[i] for i in g}


def node_centralities(nodes, edges):
    g = ref_bipartite(nodes, edges)
    b, c = nx.betweenness_centrality(g), nx.closeness_centrality(g)
    return {n: b[("n", n)] for n in nodes}, {n: c[("n", n)] for n in nodes}


def static_case(ctx, rng, idx):
    from hypergraphx.measures import s_centralities as sc
    import hypergraphx as hgx

    if idx == 8 or (ctx.tier == "thorough" and idx % 800 == 16):
        from ..gen import sharing_256_nodes

        ctx.event("hyperedges-sharing-256+-nodes")
        static_eval(ctx, rng, idx, sharing_256_nodes(rng))
        return
    if idx == 4 or (ctx.tier == "thorough" and idx % 800 == 12):
        from ..gen import big_hypergraph

        ctx.event("big-hypergraph")
        static_eval(ctx, rng, idx, big_hypergraph(rng, sizes=(1, 2, 2, 3, 4), n=rng.randint(30, 50), m=rng.randint(60, 120)))
        return
    h, uni = gen_hypergraph(rng)
    static_eval(ctx, rng, idx, h)
    from ..mutate import same_count_edit
    from hypergraphx.measures import s_centralities as sc

    for fn in (sc.s_betweenness, sc.s_closeness, sc.s_betweenness_nodes, sc.s_closeness_nodes):
        call(fn, h)  # warm any memo keyed on this object right before it is edited in place
    if same_count_edit(rng, h):
        ctx.event("re-evaluated-after-in-place-edit")
        static_eval(ctx, rng, idx, h)
    if rng.random() < 0.3:  # the same hypergraph reached through other calls (copy of a copy / clear() and re-insertion)
        from ..mutate import second_order

        lab, g2 = second_order(rng, h)
        ctx.event("re-evaluated-on-" + lab)
        static_eval(ctx, rng, idx, g2)


def static_eval(ctx, rng, idx, h):
    from hypergraphx.measures import s_centralities as sc
    import hypergraphx as hgx

    S = observe(h)
    edges = list(S.edges)
    nodes = list(S.nodes)

    def wit(extra=None):
        return {"object": S.describe(), "extra": repr(extra)[:800]}

    results = {}
    for s in rng.sample([1, 2, 3], 3) + [1, 3, 2, 1]:  # thresholds in any order, DEscending steps included (each answer stands alone)
        rb, rc = edge_centralities(edges, s)
        for name, fn, ref in (("s_betweenness", sc.s_betweenness, rb), ("s_closeness", sc.s_closeness, rc)):
            r = call(fn, h, s)
            if isinstance(r, _Raised):
                ctx.check("C20:s-edge", False, f"C20:{name}:raised:{type(r.e).__name__}", lambda: wit((s, r)))
                continue
            got = {frozenset(k): v for k, v in r.items()}
            ctx.check("C20:s-edge", len(r) == len(edges) and dict_close(got, ref), f"C20:{name}:differs-from-line-graph-centrality", lambda: wit((s, r, ref)))
            results[(name, s)] = got
    nb, ncl = node_centralities(nodes, edges)
    for name, fn, ref in (("s_betweenness_nodes", sc.s_betweenness_nodes, nb), ("s_closeness_nodes", sc.s_closeness_nodes, ncl)):
        r = call(fn, h)
        if isinstance(r, _Raised):
            ctx.check("C20:s-node", False, f"C20:{name}:raised:{type(r.e).__name__}", lambda: wit(r))
            continue
        ctx.check("C20:s-node", len(r) == len(nodes) and dict_close(dict(r), ref), f"C20:{name}:differs-from-bipartite-centrality", lambda: wit((r, ref)))
        results[(name, 0)] = dict(r)
    # relabelling: strictly monotone or shuffled injective map onto fresh labels of the same type
    if all(isinstance(n, (int, np.integer)) for n in nodes):
        img = rng.sample(range(-50, max(200, 3 * len(nodes))), len(nodes))
    else:
        img = rng.sample(["p%d" % i for i in range(40)] + ["E%d" % i for i in range(10)], len(nodes))
    pm = dict(zip(nodes, img))
    h2 = hgx.Hypergraph()
    es = list(h.get_edges())
    rng.shuffle(es)
    for n in rng.sample(nodes, len(nodes)):
        h2.add_node(pm[n])
    for e in es:
        h2.add_edge(tuple(pm[v] for v in e))
    for (name, s), base in results.items():
        fn = getattr(sc, name)
        r = call(fn, h2, s) if s else call(fn, h2)
        if isinstance(r, _Raised):
            ctx.check("C20:relabel", False, f"C20:{name}:raised-after-relabelling:{type(r.e).__name__}", lambda: wit((pm, r)))
            continue
        if s:
            exp = {frozenset(pm[v] for v in k): v_ for k, v_ in base.items()}
            got = {frozenset(k): v_ for k, v_ in r.items()}
        else:
            exp = {pm[k]: v_ for k, v_ in base.items()}
            got = dict(r)
        ctx.check("C20:relabel", dict_close(got, exp), f"C20:{name}:not-carried-along-by-relabelling", lambda: wit((pm, got, exp)))
    if len(edges) >= 2 and any(a & b for a, b in itertools.combinations(edges, 2)):
        ctx.distinct_add(("static", S.freeze()))
    if idx % 100 < 4:
        ctx.sample({"kind": "s-centralities", "object": S.describe()})


def temporal_case(ctx, rng, idx):
    from hypergraphx.measures import s_centralities as sc

    cfg = history.Cfg(rng, "T", uni=rng.choice(["small", "gaps", "str", "str", "bigneg"]))
    cfg.invalid_rate = 0.1  # refused calls are part of the build: they must leave no trace in what is measured
    cfg.avoid = {"copy", "clear"}
    cfg.n_ops = rng.randint(5, 25)
    if ctx.tier == "thorough" and idx % 20000 == 9:
        # (thorough tier) one snapshot with 1150 hyperedges - a chain of overlapping triples, so that shortest paths in its
        # line graph are long - next to two small ones: the averaged centralities are exact sums, not estimates
        import hypergraphx as hgx

        ctx.event("snapshot-with-1150-hyperedges")
        h = hgx.TemporalHypergraph()
        for i in range(1150):
            h.add_edge((i, i + 1, i + 2), 0)
        for e, t in (((0, 5), 1), ((5, 9, 11), 1), ((2, 3), 4), ((3, 4, 2000), 4)):
            h.add_edge(e, t)
    elif idx % 16 == 5:
        # the SAME set of hyperedges at several time stamps, inserted in a different order each time (plus other snapshots): the
        # average is over snapshots, and a snapshot is a set - how its hyperedges were listed does not matter
        import hypergraphx as hgx

        ctx.event("repeated-snapshot-in-other-insertion-orders")
        pool = rng.sample(range(0, 40), rng.randint(6, 9))
        base = set()
        while len(base) < rng.randint(3, 6):
            base.add(tuple(sorted(rng.sample(pool, rng.choice([2, 3, 3, 4])))))
        base = sorted(base)
        # a chain sharing two nodes between consecutive hyperedges: at s=2 the line graph is (close to) a path
        chain = [tuple(sorted((pool[i], pool[i + 1], pool[i + 2]))) for i in range(0, min(len(pool) - 2, rng.randint(3, 5)))]
        h = hgx.TemporalHypergraph()
        for t, es_ in ((0, base), (3, base), (1, chain), (5, chain), (7, chain)):
            es_ = list(es_)
            rng.shuffle(es_)
            for e in es_:
                h.add_edge(e, t)
        for _ in range(rng.randint(0, 3)):
            h.add_edge(tuple(sorted(rng.sample(pool, 2))), rng.choice([2, 4, 6]))
    else:
        try:
            live, _ = history.run_history(history.BuildCtx(ctx, "C20"), rng, cfg, battery_every=0)
        except Exception as e:
            ctx.note("build-failed:" + type(e).__name__)
            return
        h = live[0][0]
    S = observe(h)
    if not S.edges:
        return
    times = sorted({k[0] for k in S.edges})
    snaps = {t: [k[1] for k in S.edges if k[0] == t] for t in times}

    def wit(extra=None):
        return {"object": S.describe(), "extra": repr(extra)[:800]}

    s = rng.choice([1, 1, 2, 3]) if idx % 16 != 5 else rng.choice([2, 2, 1, 3])
    eb, ec, nb, ncl = {}, {}, {}, {}
    for t in times:
        es = snaps[t]
        b, c = edge_centralities(es, s)
        for k, v in b.items():
            eb[k] = eb.get(k, 0) + v
        for k, v in c.items():
            ec[k] = ec.get(k, 0) + v
        nds = sorted(set().union(*es), key=repr)
        b2, c2 = node_centralities(nds, es)
        for k, v in b2.items():
            nb[k] = nb.get(k, 0) + v
        for k, v in c2.items():
            ncl[k] = ncl.get(k, 0) + v
    T = len(times)
    for name, fn, ref, edge_keys, args in (("s_betweenness_averaged", sc.s_betweenness_averaged, eb, True, (s,)),
                                           ("s_closeness_averaged", sc.s_closeness_averaged, ec, True, (s,)),
                                           ("s_betweenness_nodes_averaged", sc.s_betweenness_nodes_averaged, nb, False, ()),
                                           ("s_closenness_nodes_averaged", sc.s_closenness_nodes_averaged, ncl, False, ())):
        r = call(fn, h, *args)
        ref = {k: v / T for k, v in ref.items()}
        if isinstance(r, _Raised):
            ctx.check("C20:averaged", False, f"C20:{name}:raised:{type(r.e).__name__}", lambda: wit((name, r)))
            continue
        got = {frozenset(k): v for k, v in r.items()} if edge_keys else dict(r)
        ctx.check("C20:averaged", len(r) == len(ref) and dict_close(got, ref), f"C20:{name}:differs-from-sum-over-snapshots/T" + ("" if set(got) == set(ref) else ":keys"), lambda: wit((name, r, ref)))
    ctx.check("C20:averaged", observe(h).same(S, with_hgmd=True), "C20:averaged:mutated-argument", wit)
    if len(S.edges) >= 2:
        ctx.distinct_add(("T", S.freeze(), s))
    if idx % 100 < 4:
        ctx.sample({"kind": "averaged", "object": S.describe()})


def long_tail_case(ctx, rng, idx):
    """A dense core (one hyperedge of 30-45 nodes: leading eigenvalue 29-44) with a pendant PATH of 5-8 links: the far end of the
    path has a component of 1e-10 ... 1e-17 on the leading eigenvector, and yet exp(lambda) times its square is a real share of
    its diagonal entry of expm(A).  Reference: the Taylor series of expm(A), all terms non-negative (no cancellation); judged
    to 1e-6 in the logarithm."""
    from hypergraphx.measures.sub_hypergraph_centrality import subhypergraph_centrality
    import hypergraphx as hgx

    core, tail = rng.randint(30, 45), rng.randint(5, 8)
    ctx.event(f"dense-core-with-a-long-tail:{core}+{tail}")
    base = rng.choice([0, 100])
    es = [tuple(range(base, base + core))] + [(base + core - 1 + i, base + core + i) for i in range(tail)]
    if rng.random() < 0.5:
        es.append((base + 3, base + 5000))
    rng.shuffle(es)
    h = hgx.Hypergraph(es)
    nodes = sorted(h.get_nodes())
    row = {n: i for i, n in enumerate(nodes)}
    N = len(nodes)
    A = np.zeros((N, N))
    for e in es:
        for a, b in itertools.permutations(e, 2):
            A[row[a], row[b]] += 1
    term, total = np.eye(N), np.eye(N)
    for k in range(1, 2000):
        term = term @ A / k
        total = total + term
        if term.max() < 1e-18 * total[total > 0].min():
            break
    ref = np.log(np.diag(total))
    r = call(subhypergraph_centrality, h)

    def wit(x=None):
        return {"core": core, "tail": tail, "extra": repr(x)[:600]}

    if isinstance(r, _Raised):
        ctx.check("C20:subhypergraph", False, f"C20:subhypergraph_centrality:raised:{type(r.e).__name__}:long-tail", lambda: wit(r))
        return
    got = np.asarray(r, dtype=float).ravel()
    ok = got.shape == ref.shape and np.allclose(got, ref, rtol=0, atol=1e-6)
    ctx.check("C20:subhypergraph", ok, "C20:subhypergraph_centrality:differs-from-log-diag-expm:long-tail", lambda: wit((float(np.abs(got - ref).max()) if got.shape == ref.shape else got.shape, got[-4:].tolist(), ref[-4:].tolist())))
    ctx.distinct_add(("long-tail", core, tail))


def subhg_case(ctx, rng, idx):
    from hypergraphx.measures.sub_hypergraph_centrality import subhypergraph_centrality
    import hypergraphx as hgx

    if idx in (6, 10) or (ctx.tier == "thorough" and idx % 400 == 22):
        return long_tail_case(ctx, rng, idx)

    h, uni = gen_hypergraph(rng)
    S = observe(h)
    try:
        nodes = sorted(S.nodes)
    except TypeError:
        return
    N = len(nodes)
    row = {n: i for i, n in enumerate(nodes)}
    A = np.zeros((N, N))
    for e in S.edges:
        for a, b in itertools.permutations(e, 2):
            A[row[a], row[b]] += 1

    def wit(extra=None):
        return {"object": S.describe(), "extra": repr(extra)[:800]}

    r = call(subhypergraph_centrality, h)
    if isinstance(r, _Raised):
        ctx.check("C20:subhypergraph", False, f"C20:subhypergraph_centrality:raised:{type(r.e).__name__}", lambda: wit(r))
        return
    got = np.asarray(r, dtype=float).ravel()
    ref = np.log(np.diag(expm(A)))
    ctx.check("C20:subhypergraph", got.shape == ref.shape and np.allclose(got, ref, rtol=1e-9, atol=1e-9), "C20:subhypergraph_centrality:differs-from-log-diag-expm", lambda: wit((got.tolist(), ref.tolist())))
    # relabelling by an order-reversing map: entries permute accordingly
    if all(isinstance(n, (int, np.integer)) for n in nodes):
        pm = {n: -int(n) for n in nodes}
        h2 = hgx.Hypergraph()
        for n in nodes:
            h2.add_node(pm[n])
        for e in h.get_edges():
            h2.add_edge(tuple(pm[v] for v in e))
        r2 = call(subhypergraph_centrality, h2)
        if isinstance(r2, _Raised):
            ctx.check("C20:relabel", False, f"C20:subhypergraph_centrality:raised-after-relabelling:{type(r2.e).__name__}", lambda: wit(r2))
        else:
            g2 = np.asarray(r2, dtype=float).ravel()
            ctx.check("C20:relabel", g2.shape == got.shape and np.allclose(g2[::-1], got, rtol=1e-9, atol=1e-9), "C20:subhypergraph_centrality:not-carried-along-by-relabelling", lambda: wit((g2.tolist(), got.tolist())))
    if len(S.edges) >= 2:
        ctx.distinct_add(("sub", S.freeze()))


def eigen_case(ctx, rng, idx):
    import hypergraphx as hgx
    from hypergraphx.measures import eigen_centralities as ec

    if idx == 3 or (ctx.tier == "thorough" and idx % 800 == 15):
        # one pair of nodes sharing 256+ hyperedges (4-uniform: {0, 1, a, b} for all a < b): co-membership counts beyond
        # what a byte holds; the eigen-equations are stated for the true clique-expansion matrix
        import itertools as _it

        ctx.event("pair-in-276-hyperedges")
        N = 26
        h = hgx.Hypergraph([(0, 1, a, b) for a, b in _it.combinations(range(2, N), 2)])
        eigen_eval(ctx, rng, idx, h, 4, N)
        return
    if idx == 7 or (ctx.tier == "thorough" and idx % 800 == 19):
        # slowly mixing: a loose path of 20 hyperedges (second eigenvalue at 0.98 of the first); the power iteration needs a
        # few hundred steps.  HEC is left out here (its own default budget of 100 iterations does not reach its tolerance on
        # such inputs on the pinned tree either - not what this case is about)
        k = rng.choice([3, 4])
        L = 20
        edges = [tuple(range(i * (k - 1), i * (k - 1) + k)) for i in range(L)]
        N = edges[-1][-1] + 1
        ctx.event("slowly-mixing-path")
        eigen_eval(ctx, rng, idx, hgx.Hypergraph(edges), k, N, only_cec=True)
        return
    k = rng.choice([3, 4])
    N = rng.randint(k, 9)
    nodes = list(range(N))
    edges = set()
    perm = nodes[:]
    rng.shuffle(perm)
    i = 0
    while i < N:  # chain of overlapping hyperedges guarantees connectivity
        chunk = perm[max(0, i - 1): max(0, i - 1) + k]
        if len(chunk) < k:
            chunk = perm[-k:]
        edges.add(tuple(sorted(chunk)))
        i += k - 1
    for _ in range(rng.randint(0, 6)):
        edges.add(tuple(sorted(rng.sample(nodes, k))))
    edges = sorted(edges)
    h = hgx.Hypergraph(edges)
    h.add_nodes(nodes)
    eigen_eval(ctx, rng, idx, h, k, N)
    from ..mutate import same_count_edit
    from hypergraphx.measures import eigen_centralities as ec

    # the last calls before the edit are on this very object (a single-entry memo keyed on it must be warm)
    call(quiet, ec.CEC_centrality, h)
    call(quiet, ec.HEC_centrality, h)
    if same_count_edit(rng, h, uniform_size=k, keep_connected=True):  # same object, same counts, other hyperedges
        ctx.event("re-evaluated-after-in-place-edit")
        eigen_eval(ctx, rng, idx, h, k, N)


def eigen_eval(ctx, rng, idx, h, k, N, only_cec=False):
    import hypergraphx as hgx
    from hypergraphx.measures import eigen_centralities as ec

    nodes = list(range(N))
    edges = sorted(tuple(e) for e in h.get_edges())

    def wit(extra=None):
        return {"k": k, "N": N, "edges": edges, "extra": repr(extra)[:800]}

    from ..mutate import connected_ref

    if not connected_ref(h) or len(h.get_nodes()) != N:
        ctx.note("eigen:generator-disconnected")
        return
    W = np.zeros((N, N))
    for e in edges:
        for a, b in itertools.permutations(e, 2):
            W[a, b] += 1
    lam = float(np.max(np.linalg.eigvalsh(W)))
    base = {}
    for seed in (rng.randrange(2**31), rng.randrange(2**31), rng.randrange(2**31)):
        np.random.seed(seed)
        r = call(quiet, ec.CEC_centrality, h)
        if isinstance(r, _Raised):
            ctx.check("C20:cec", False, f"C20:CEC:raised:{type(r.e).__name__}", lambda: wit(r))
        else:
            c = np.array([r[n] for n in range(N)])
            ctx.check("C20:cec", sorted(r) == nodes and np.all(c > 0) and abs(np.linalg.norm(c) - 1) <= 1e-9, "C20:CEC:not-a-positive-unit-vector", lambda: wit((seed, c.tolist())))
            res = float(np.max(np.abs(W @ c - lam * c)))
            if res <= 1e-5 * lam:
                ctx.tick("C20:cec")
            elif res < 3e-5 * lam:
                ctx.inconclusive_case("band:C20:cec")
            else:
                ctx.check("C20:cec", False, "C20:CEC:eigen-equation-residual", lambda: wit((seed, res, lam, c.tolist())))
            base.setdefault("cec", c)
        if only_cec:
            continue
        np.random.seed(seed)
        r = call(quiet, ec.HEC_centrality, h)
        if isinstance(r, _Raised):
            ctx.check("C20:hec", False, f"C20:HEC:raised:{type(r.e).__name__}", lambda: wit(r))
        else:
            x = np.array([r[n] for n in range(N)])
            ctx.check("C20:hec", sorted(r) == nodes and np.all(x > 0) and abs(np.sum(x) - 1) <= 1e-9, "C20:HEC:not-a-positive-L1-normalised-vector", lambda: wit((seed, x.tolist())))
            if np.all(x > 0):
                m = k - 1
                ratios = np.array([sum(np.prod([x[j] for j in e if j != i]) for e in edges if i in e) / x[i] ** m for i in range(N)])
                spread = float((ratios.max() - ratios.min()) / ratios.mean())
                if spread <= 1e-3:
                    ctx.tick("C20:hec")
                elif spread < 1e-1:
                    ctx.inconclusive_case("band:C20:hec")
                else:
                    ctx.check("C20:hec", False, "C20:HEC:eigen-equation-ratio-not-constant", lambda: wit((seed, spread, x.tolist())))
                base.setdefault("hec", x)
    # relabelling by a permutation of 0..N-1
    p = nodes[:]
    rng.shuffle(p)
    h2 = hgx.Hypergraph([tuple(sorted(p[v] for v in e)) for e in edges])
    h2.add_nodes(nodes)
    for name, fn, mon in (("cec", ec.CEC_centrality, "C20:relabel"), ("hec", ec.HEC_centrality, "C20:relabel")):
        if name not in base:
            continue
        np.random.seed(rng.randrange(2**31))
        r = call(quiet, fn, h2)
        if isinstance(r, _Raised):
            ctx.check(mon, False, f"C20:{name.upper()}:raised-after-relabelling:{type(r.e).__name__}", lambda: wit((p, r)))
            continue
        got = np.array([r[p[i]] for i in range(N)])
        err = float(np.max(np.abs(got - base[name])))
        if err <= 1e-4:
            ctx.tick(mon)
        elif err < 1e-2:
            ctx.inconclusive_case("band:C20:relabel:" + name)
        else:
            ctx.check(mon, False, f"C20:{name.upper()}:not-carried-along-by-relabelling", lambda: wit((p, got.tolist(), base[name].tolist())))
    if len(edges) >= 2:
        ctx.distinct_add(("eigen", k, N, tuple(edges)))
    if idx % 100 < 4:
        ctx.sample({"kind": "CEC/HEC", "k": k, "N": N, "edges": edges})
