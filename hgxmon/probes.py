"""sys.monitoring attachment to inner code objects (closures, loops) of the library —
invariants at hooks inside running algorithms without touching the source.

Local events are enabled only for the code objects of interest; callbacks read the
monitored frame's locals (including closure cells) and never write."""
import sys

TOOL = 3  # sys.monitoring.PROFILER_ID is 2, 3 is free by convention for "other" tools
_claimed = False
_callbacks = {}  # event -> {code: fn}
E = sys.monitoring.events


def find_code(root, name, first_line=None):
    """code object called `name` nested anywhere under function/code `root`"""
    code = getattr(root, "__code__", root)
    stack = [code]
    while stack:
        c = stack.pop()
        for k in c.co_consts:
            if hasattr(k, "co_code"):
                if k.co_name == name and (first_line is None or k.co_firstlineno == first_line):
                    return k
                stack.append(k)
    return None


def _dispatch(event):
    def cb(code, *args):
        fn = _callbacks.get(event, {}).get(code)
        if fn is not None:
            try:
                fn(sys._getframe(1), *args)
            except Exception as e:  # a probe must never change the monitored run
                ERRORS.append(repr(e))
        return None

    return cb


ERRORS = []


def attach(code, event, fn):
    """event: 'PY_RETURN' | 'PY_START' | 'LINE'.  fn(frame, *event_args)."""
    global _claimed
    ev = getattr(E, event)
    if not _claimed:
        sys.monitoring.use_tool_id(TOOL, "hgxmon")
        _claimed = True
    if ev not in _callbacks:
        _callbacks[ev] = {}
        sys.monitoring.register_callback(TOOL, ev, _dispatch(ev))
    _callbacks[ev][code] = fn
    cur = sys.monitoring.get_local_events(TOOL, code)
    sys.monitoring.set_local_events(TOOL, code, cur | ev)


def detach(code):
    for ev, d in _callbacks.items():
        d.pop(code, None)
    try:
        sys.monitoring.set_local_events(TOOL, code, 0)
    except Exception:
        pass


class attached:
    """context manager: with attached(code, 'PY_RETURN', fn): ..."""

    def __init__(self, code, event, fn):
        self.code, self.event, self.fn = code, event, fn

    def __enter__(self):
        attach(self.code, self.event, self.fn)
        return self

    def __exit__(self, *a):
        detach(self.code)
        return False


# --------------------------------------------------------------------------------------
# reach: which lines of the anchored library files did the workload actually execute?
# (sys.monitoring LINE events with DISABLE after the first hit: each location fires once,
#  so the cost is negligible; tool id 4 is separate from the invariant probes above)
# --------------------------------------------------------------------------------------
COV_TOOL = 4
_cov = {"on": False, "hits": set(), "prefix": None}


def _cov_line(code, line):
    fn = code.co_filename
    if fn.startswith(_cov["prefix"]):
        _cov["hits"].add((fn[len(_cov["prefix"]):], line))
    return sys.monitoring.DISABLE


def coverage_start(repo_prefix):
    """record executed lines of every file under <repo_prefix>/hypergraphx/"""
    if _cov["on"]:
        return
    _cov["prefix"] = repo_prefix.rstrip("/") + "/"
    sys.monitoring.use_tool_id(COV_TOOL, "hgxmon-reach")
    sys.monitoring.register_callback(COV_TOOL, E.LINE, _cov_line)
    sys.monitoring.set_events(COV_TOOL, E.LINE)
    _cov["on"] = True


def coverage_hits():
    return sorted(_cov["hits"])


def executable_lines(path):
    """line numbers that carry code in a source file (from the compiled code objects)"""
    import types

    with open(path) as fh:
        src = fh.read()
    top = compile(src, path, "exec")
    lines = set()
    stack = [top]
    while stack:
        c = stack.pop()
        for _, _, ln in c.co_lines():
            if ln is not None:
                lines.add(ln)
        for k in c.co_consts:
            if isinstance(k, types.CodeType):
                stack.append(k)
    # docstring-only lines and def/class headers are counted by co_lines as well; good enough for a reach figure
    return lines


def functions_in(path):
    """(qualified name, first line, last line) of every function in a file"""
    import ast

    with open(path) as fh:
        tree = ast.parse(fh.read())
    out = []

    def walk(node, prefix):
        for ch in ast.iter_child_nodes(node):
            if isinstance(ch, (ast.FunctionDef, ast.AsyncFunctionDef)):
                out.append((prefix + ch.name, ch.lineno, ch.end_lineno))
                walk(ch, prefix + ch.name + ".")
            elif isinstance(ch, ast.ClassDef):
                walk(ch, prefix + ch.name + ".")
            else:
                walk(ch, prefix)

    walk(tree, "")
    return out
