"""pytest plugin: run the repository's OWN test suite with the container monitors switched on.

Every public mutating method of the four container classes is wrapped; after each call (returned or
raised) on a small enough object the derived-query battery is evaluated against the object's own
public observation (internal consistency: incidence <-> hyperedges, weights/metadata views, filters,
degrees ...).  No model of the history is needed for that.  A battery mismatch fired by one of the
suite's inputs is either an over-strict oracle or a defect the suite does not assert.

Loaded with:  PYTHONPATH=<repo>:/verif HGX_VERIF=1 python -m pytest -p hgxmon.pytest_plugin <tests>
Writes a JSON summary to $HGXMON_SUITE_OUT.
"""
import json
import os
import random

MUTATORS = ["add_node", "add_nodes", "add_edge", "add_edges", "remove_edge", "remove_edges", "remove_node", "remove_nodes",
            "set_weight", "set_node_metadata", "set_edge_metadata", "set_attr_to_node_metadata", "set_attr_to_edge_metadata",
            "remove_attr_from_node_metadata", "remove_attr_from_edge_metadata", "clear"]
STATE = {"ctx": None, "depth": 0, "skipped_large": 0, "calls": 0}


def _install():
    import hypergraphx as hgx
    from hgxmon import battery, monitor, observe

    ctx = monitor.Ctx("suite", 0, "thorough")
    STATE["ctx"] = ctx
    rng = random.Random(0)

    def wrap(cls, name):
        orig = getattr(cls, name)

        def wrapped(self, *a, **k):
            STATE["depth"] += 1
            try:
                return orig(self, *a, **k)
            finally:
                STATE["depth"] -= 1
                if STATE["depth"] == 0:  # only at the client boundary, not for nested internal calls
                    STATE["calls"] += 1
                    ctx.event(f"{cls.__name__}.{name}")
                    _judge(self, cls.__name__, name)

        wrapped.__name__ = name
        setattr(cls, name, wrapped)

    def _judge(h, cname, name):
        try:
            if len(h.get_nodes()) > 40 or len(h.get_edges()) > 60:
                STATE["skipped_large"] += 1
                return
            # objects built by the suite with tuple / mixed labels are outside the battery's domain
            nodes = h.get_nodes()
            if any(isinstance(n, tuple) for n in nodes):
                ctx.note("skipped-tuple-labels")
                return
            try:
                sorted(nodes)
            except TypeError:
                ctx.note("skipped-incomparable-labels")
                return
            def members(e):
                if cname == "Hypergraph":
                    return [e]
                if cname == "DirectedHypergraph":
                    return [e[0], e[1], tuple(e[0]) + tuple(e[1])]
                return [e[1]] if cname == "TemporalHypergraph" else [e[0]]

            if any(len(set(m)) != len(m) for e in h.get_edges() for m in members(e) if not any(isinstance(x, tuple) for x in m)):
                ctx.note("skipped-hyperedge-listing-a-node-twice")  # self-loops etc.: outside the properties' domain
                return
            if cname in ("TemporalHypergraph", "MultiplexHypergraph") and any(
                    isinstance(x, tuple) for e in h.get_edges() for x in (e[1] if cname == "TemporalHypergraph" else e[0])):
                ctx.note("skipped-directed-temporal-or-multiplex-records")  # (source, target) pairs inside T/M: outside C03/C04
                return
            STATE["depth"] += 1  # the monitor's own queries must not re-enter the monitor
            try:
                P = []
                S = observe.observe(h, P)
                if P:
                    ctx.violation(f"suite:{cname}:inconsistent-views-after:{name}:{P[0]}", {"test": os.environ.get("PYTEST_CURRENT_TEST")})
                    return
                ctx.case_idx = STATE["calls"]
                try:
                    battery.battery(ctx, h, S, rng, tag="suite:" + cname, wit=lambda: {"test": os.environ.get("PYTEST_CURRENT_TEST"), "after": name, "object": S.describe()})
                except monitor.CaseAbort:
                    pass
            finally:
                STATE["depth"] -= 1
        except Exception as e:  # the monitor must never change the outcome of a test
            ctx.note("monitor-error:" + type(e).__name__ + ":" + repr(e)[:90] + "@" + str(os.environ.get("PYTEST_CURRENT_TEST"))[:80])

    for cls in (hgx.Hypergraph, hgx.DirectedHypergraph, hgx.TemporalHypergraph, hgx.MultiplexHypergraph):
        for name in MUTATORS:
            if hasattr(cls, name):
                wrap(cls, name)


def pytest_configure(config):
    if os.environ.get("HGX_VERIF") == "1":
        _install()


def pytest_sessionfinish(session, exitstatus):
    ctx = STATE["ctx"]
    out = os.environ.get("HGXMON_SUITE_OUT")
    if ctx is None or not out:
        return
    d = ctx.dump()
    d["skipped_large"] = STATE["skipped_large"]
    d["calls"] = STATE["calls"]
    d["exitstatus"] = int(exitstatus)
    with open(out, "w") as fh:
        json.dump(d, fh)
