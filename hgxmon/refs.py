"""Small reference implementations (by definition, sets and loops only)."""


def components(nodes, edges):
    """connected components (list of sets) of the node set under hyperedges (iterables of
    nodes); hyperedges of size < 2 connect nothing; every node is in exactly one class"""
    parent = {n: n for n in nodes}

    def find(x):
        while parent[x] != x:
            parent[x] = parent[parent[x]]
            x = parent[x]
        return x

    for e in edges:
        e = [n for n in e if n in parent]
        for a in e[1:]:
            ra, rb = find(e[0]), find(a)
            if ra != rb:
                parent[ra] = rb
    cls = {}
    for n in nodes:
        cls.setdefault(find(n), set()).add(n)
    return list(cls.values())
