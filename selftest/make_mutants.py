#!/venv/bin/python
"""Generate selftest/mutants/<name>.patch from the table below (each: a realistic single-hunk slip).
Run from /verif; uses a scratch worktree of /repo that is removed afterwards."""
import json, os, subprocess, tempfile
V = os.path.dirname(os.path.dirname(os.path.abspath(__file__)))
M = [
 # name, property, file, old, new
 ("c01_get_weight_no_canon", "C01", "hypergraphx/core/hypergraph.py", '''        edge = tuple(sorted(edge))
        if edge in self._edge_list:
            edge_id = self._edge_list[edge]
            return self._weights[edge_id]''', '''        edge = tuple(edge)
        if edge in self._edge_list:
            edge_id = self._edge_list[edge]
            return self._weights[edge_id]'''),
 ("c01_remove_edge_keeps_weight", "C01", "hypergraphx/core/hypergraph.py", '''        del self._reverse_edge_list[self._edge_list[edge]]
        del self._edge_metadata[self._edge_list[edge]]
        del self._weights[self._edge_list[edge]]
        del self._edge_list[edge]''', '''        del self._reverse_edge_list[self._edge_list[edge]]
        del self._weights[self._edge_list[edge]]
        del self._edge_list[edge]'''),
 ("c01_num_edges_upto_ignored", "C01", "hypergraphx/core/hypergraph.py", '''                s = 0
                for edge in self._edge_list:
                    if len(edge) - 1 <= order:
                        s += 1
                return s''', '''                s = 0
                for edge in self._edge_list:
                    if len(edge) - 1 < order:
                        s += 1
                return s'''),
 ("c02_source_target_swapped_in_filter", "C02", "hypergraphx/core/directed_hypergraph.py", '''        elif size is not None:
            return [
                self._reverse_edge_list[e_idx]
                for e_idx in self._adj_target[node]
                if _get_edge_size(self._reverse_edge_list[e_idx]) == size
            ]''', '''        elif size is not None:
            return [
                self._reverse_edge_list[e_idx]
                for e_idx in self._adj_source[node]
                if _get_edge_size(self._reverse_edge_list[e_idx]) == size
            ]'''),
 ("c02_set_weight_no_canon_target", "C02", "hypergraphx/core/directed_hypergraph.py", '''        edge = (tuple(sorted(edge[0])), tuple(sorted(edge[1])))
        if edge in self._edge_list:
            idx = self._edge_list[edge]
            self._weights[idx] = weight''', '''        edge = (tuple(sorted(edge[0])), tuple(edge[1]))
        if edge in self._edge_list:
            idx = self._edge_list[edge]
            self._weights[idx] = weight'''),
 ("c03_window_closed_right", "C03", "hypergraphx/core/temporal_hypergraph.py", '''                if time_window[0] <= _t < time_window[1]:
                    edges.append((_t, _edge))''', '''                if time_window[0] <= _t <= time_window[1]:
                    edges.append((_t, _edge))'''),
 ("c03_aggregate_skips_last_window", "C03", "hypergraphx/core/temporal_hypergraph.py", '''        while t_start <= max_time:''', '''        while t_start < max_time:'''),
 ("c04_aggregate_loses_weight", "C04", "hypergraphx/core/multiplex_hypergraph.py", '''            h.add_edge(
                _edge,
                weight=self.get_weight(_edge, layer),
                metadata=self.get_edge_metadata(_edge, layer),
            )''', '''            h.add_edge(
                _edge,
                weight=1 if h.check_edge(_edge) else self.get_weight(_edge, layer),
                metadata=self.get_edge_metadata(_edge, layer),
            )'''),
 ("c05_by_orders_unweighted", "C05", "hypergraphx/core/hypergraph.py", '''                if h.is_weighted():
                    h.add_edge(
                        edge, self.get_weight(edge), self.get_edge_metadata(edge)
                    )''', '''                if h.is_weighted() and size > 2:
                    h.add_edge(
                        edge, self.get_weight(edge), self.get_edge_metadata(edge)
                    )'''),
 ("c06_load_skips_time_zero", "C06", "hypergraphx/readwrite/load.py", '''                    time = edge["metadata"].get("time")''', '''                    time = edge["metadata"].get("time") or 1'''),
 ("c06_hgr_weight_mode", "C06", "hypergraphx/readwrite/load.py", '''                    if mode % 10 == 1 and len(entries) > 1:  # read weight''', '''                    if mode == 1 and len(entries) > 1:  # read weight'''),
 ("c07_hash_unsorted_nodes", "C07", "hypergraphx/core/hypergraph.py", '''        for node in sorted(self._adj.keys()):
            nodes.append({"node": node, "metadata": self._node_metadata[node]})''', '''        for node in self._adj.keys():
            nodes.append({"node": node, "metadata": self._node_metadata[node]})'''),
 ("c07_hash_ignores_layer_metadata", "C07", "hypergraphx/core/temporal_hypergraph.py", '''                    "weight": self._weights.get(edge_id, 1),
                    "metadata": self._edge_metadata.get(edge_id, {}),
                }
            )

        nodes = []
        for node in sorted(self._node_metadata.keys()):''', '''                    "weight": self._weights.get(edge_id, 1),
                    "metadata": {},
                }
            )

        nodes = []
        for node in sorted(self._node_metadata.keys()):'''),
 ("c08_is_isolated_ignores_filter", "C08", "hypergraphx/utils/cc.py", '''    return len(list(hg.get_neighbors(node, order=order, size=size))) == 0''', '''    return len(list(hg.get_neighbors(node))) == 0'''),
 ("c08_largest_component_first", "C08", "hypergraphx/utils/cc.py", '''    return max(components, key=len)''', '''    return components[0] if len(components) < 3 else max(components, key=len)'''),
 ("c09_dual_no_diag", "C09", "hypergraphx/linalg/linalg.py", '''    adj = incidence.transpose() @ incidence
    adj.data = np.ones_like(adj.data)''', '''    adj = incidence.transpose() @ incidence
    adj.setdiag(0)
    adj.eliminate_zeros()
    adj.data = np.ones_like(adj.data)'''),
 ("c09_laplacian_order_factor", "C09", "hypergraphx/linalg/linalg.py", '''    laplacian = degree_mtx.multiply(order + 1) - incidence.dot(incidence.transpose())''', '''    laplacian = degree_mtx.multiply(max(order, 1) + 1) - incidence.dot(incidence.transpose())''' ),
 ("c10_line_graph_strict_threshold", "C10", "hypergraphx/representations/projections.py", '''                    w = _distance(e_i, e_j)
                    if w >= s:''', '''                    w = _distance(e_i, e_j)
                    if w > s or (w == s and distance == "intersection"):'''),
 ("c10_directed_line_uses_sources", "C10", "hypergraphx/representations/projections.py", '''                source = set(edge1[1])
                target = set(edge2[0])''', '''                source = set(edge1[1])
                target = set(edge2[0]) if len(edge2[0]) > 1 else set(edge2[0]) | set(edge2[1])'''),
 ("c12_signature_index_off", "C12", "hypergraphx/measures/directed/hyperedge_signature.py", '''        signature[source_size - 1, target_size - 1] += 1''', '''        signature[target_size - 1, source_size - 1] += 1''' ),
 ("c12_strong_uses_any", "C12", "hypergraphx/measures/directed/reciprocity.py", '''        if set(source).issubset(covered):''', '''        if set(source).issubset(covered) or (len(source) > 2 and set(source) & covered):'''),
 ("c13_reshuffle_drops_intersection", "C13", "hypergraphx/generation/configuration_model.py", '''        g1 = ix.copy()
        g2 = ix.copy()''', '''        g1 = ix.copy()
        g2 = ix.copy() if len(ix) < 2 else ix[:-1]'''),
 ("c13_directed_swap_skips_check", "C13", "hypergraphx/generation/directed_configuration_model.py", '''        if node2 in target1 or node1 in target2:
            continue''', '''        if node2 in target1:
            continue'''),
 ("c14_add_random_edges_wrong_size", "C14", "hypergraphx/generation/random.py", '''    nodes = list(hg.get_nodes())
    edges = set()
    while len(edges) < num_edges:
        edges.add(tuple(sorted(random.sample(nodes, size))))''', '''    nodes = list(hg.get_nodes())
    edges = set()
    while len(edges) < num_edges:
        edges.add(tuple(sorted(random.sample(nodes, size if len(edges) < 3 else size - 1))))'''),
 ("c14_random_hypergraph_seed_np", "C14", "hypergraphx/generation/random.py", '''    if seed is not None:
        random.seed(seed)
    h = Hypergraph()
    nodes = list(range(num_nodes))''', '''    if seed is not None and seed != 0:
        random.seed(seed)
    h = Hypergraph()
    nodes = list(range(num_nodes))'''),
 ("c15_cprime_denominator", "C15", "hypergraphx/communities/hy_mmsbm/model.py", '''            return 2 / (self.N - 2) * np.sum((d_vals - 2) / (d_vals * (d_vals - 1)))''', '''            return 2 / (self.N - 2) * np.sum((d_vals - 2) / (d_vals * d_vals))'''),
 ("c15_fit_rescales_supplied_u", "C15", "hypergraphx/communities/hy_mmsbm/model.py", '''        if not fixed_w:
            self.w = self.w / self.C()
        elif not fixed_u:''', '''        if not fixed_w:
            self.w = self.w / self.C()
            if fixed_u and self.max_hye_size > 4:
                self.u = self.u * 1.0000001
        elif not fixed_u:'''),
 ("c16_reshuffle_size_leak", "C16", "hypergraphx/generation/hy_mmsbm_sampling.py", '''                list(disjoint_union), size=len(hye1) - len(intersection), replace=False''', '''                list(disjoint_union), size=max(len(hye1) - len(intersection), 1 if len(disjoint_union) > 3 else 0), replace=False'''),
 ("c17_hysc_isolates_assigned", "C17", "hypergraphx/communities/hy_sc/model.py", '''        for idx, i in enumerate(self.non_isolates):
            X_pred[i, y_pred[idx]] = 1''', '''        for idx, i in enumerate(self.non_isolates):
            X_pred[i, y_pred[idx]] = 1
        if len(self.isolates) > 1:
            X_pred[self.isolates[-1], 0] = 1'''),
 ("c17_maxl_first_realization", "C17", "hypergraphx/communities/hypergraph_mt/model.py", '''            if self.maxL < loglik:
                self._update_optimal_parameters()
                self.maxL = loglik''', '''            if self.maxL < loglik:
                if r < 2:
                    self._update_optimal_parameters()
                self.maxL = loglik'''),
 ("c18_contagion_reads_new_state", "C18", "hypergraphx/dynamics/contagion.py", '''                    if I_old[neigh] == 1 and np.random.random() < beta:''', '''                    if I_new[neigh] == 1 and np.random.random() < beta:'''),
 ("c18_density_transposed", "C18", "hypergraphx/dynamics/randwalk.py", '''        s = s @ K
        density_list.append(s)''', '''        s = K @ s
        density_list.append(s)'''),
 ("c19_filter_remove_mode_edges", "C19", "hypergraphx/filters/metadata_filters.py", '''            matches = matches_criteria(edge_metadata, edge_criteria)
            if (mode == "keep" and not matches) or (mode == "remove" and matches):
                edges_to_process.append(edge)''', '''            matches = matches_criteria(edge_metadata, edge_criteria)
            if (mode == "keep" and not matches) or (mode == "remove" and matches and len(edge_criteria) < 2):
                edges_to_process.append(edge)'''),
 ("c19_svh_pvalue_strict", "C19", "hypergraphx/filters/statistical_filters.py", '''    p = st.binom.sf(n12 - 1, p=np.prod(ns / n), n=n)''', '''    p = st.binom.sf(n12 - 1 if n12 < 4 else n12, p=np.prod(ns / n), n=n)'''),
 ("c20_closeness_avg_divisor", "C20", "hypergraphx/measures/s_centralities.py", '''        b = nx.closeness_centrality(lg)
        for k, v in b.items():
            k = id_to_edge[k]
            if k not in res.keys():
                res[k] = 0
            res[k] += v
    return {k: v / T for k, v in res.items()}''', '''        b = nx.closeness_centrality(lg)
        for k, v in b.items():
            k = id_to_edge[k]
            if k not in res.keys():
                res[k] = 0
            res[k] += v
    return {k: v / max(T - 1, 1) for k, v in res.items()}'''),
 ("c20_hec_wrong_root", "C20", "hypergraphx/measures/eigen_centralities.py", '''    order = len(HG.get_edges()[0]) - 1
    f = lambda v, m: np.power(v, 1.0 / m)''', '''    order = len(HG.get_edges()[0]) - 1
    f = lambda v, m: np.power(v, 1.0 / (m if m < 3 else m + 1))'''),
 ("c11_visited_unsorted", "C11", "hypergraphx/motifs/utils.py", '''                    if len(tmp) == N and not (tuple(sorted(tmp)) in visited):
                        visited[tuple(sorted(tmp))] = 1
                        count_motif(tmp)

    out = []

    for motif in mapping.keys():
        count = 0
        for label in mapping[motif]:
            count += labeling[label]

        out.append((motif, count))

    out = list(sorted(out))

    D = {}
    for i in range(len(out)):
        D[i] = out[i][0]

    # with open('motifs_{}.pickle'.format(N), 'wb') as handle:
    # pickle.dump(D, handle, protocol=pickle.HIGHEST_PROTOCOL)

    return out, visited


def _motifs_standard''', '''                    if len(tmp) == N and not (tuple(tmp) in visited):
                        visited[tuple(tmp)] = 1
                        count_motif(tmp)

    out = []

    for motif in mapping.keys():
        count = 0
        for label in mapping[motif]:
            count += labeling[label]

        out.append((motif, count))

    out = list(sorted(out))

    D = {}
    for i in range(len(out)):
        D[i] = out[i][0]

    # with open('motifs_{}.pickle'.format(N), 'wb') as handle:
    # pickle.dump(D, handle, protocol=pickle.HIGHEST_PROTOCOL)

    return out, visited


def _motifs_standard'''),
]
wt = tempfile.mkdtemp(prefix="hgx_mk_"); os.rmdir(wt)
subprocess.run(f"git -C /repo worktree add -q --detach {wt} HEAD", shell=True, check=True)
try:
    for name, prop, f, old, new in M:
        p = os.path.join(wt, f); s = open(p).read()
        if s.count(old) != 1:
            print("SKIP (pattern count %d): %s" % (s.count(old), name)); continue
        open(p, "w").write(s.replace(old, new))
        d = subprocess.run(f"git -C {wt} diff", shell=True, capture_output=True, text=True).stdout
        open(os.path.join(V, "selftest", "mutants", name + ".patch"), "w").write(f"# property: {prop}\n" + d)
        subprocess.run(f"git -C {wt} checkout -q -- .", shell=True, check=True)
    print(len(os.listdir(os.path.join(V, "selftest", "mutants"))), "patches")
finally:
    subprocess.run(f"git -C /repo worktree remove --force {wt}", shell=True)
