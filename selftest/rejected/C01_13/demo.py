"""C01: a batched node insertion must leave the same observable state as the
same insertions done one by one (nodes, node metadata, edges untouched)."""
from hypergraphx import Hypergraph


def observe(h):
    return (
        sorted(h.get_nodes()),
        {n: dict(h.get_node_metadata(n)) for n in h.get_nodes()},
        {n: dict(m) for n, m in h.get_nodes(metadata=True).items()},
        sorted(h.get_edges()),
        {n: h.degree(n) for n in h.get_nodes()},
    )


def build(weighted):
    h = Hypergraph(weighted=weighted)
    h.add_edge((1, 2), weight=3 if weighted else None)  # creates nodes 1, 2
    h.add_node(3, {"kind": "old"})  # node with metadata
    h.add_node(4)  # node without metadata
    return h


md = {1: {"kind": "a"}, 3: {"kind": "c"}, 4: {"kind": "d"}, 5: {"kind": "e"}}
batch = [5, 1, 3, 4]
for weighted in (False, True):
    single = build(weighted)
    for n in batch:
        single.add_node(n, metadata=dict(md[n]))
    batched = build(weighted)
    batched.add_nodes(batch, metadata={n: dict(md[n]) for n in batch})
    assert observe(batched) == observe(single), (observe(batched), observe(single))

    # plain model: metadata is attached when the node has none yet
    model = {1: {"kind": "a"}, 2: {}, 3: {"kind": "old"}, 4: {"kind": "d"},
             5: {"kind": "e"}}
    assert observe(batched)[1] == model, observe(batched)[1]
    assert batched.copy().get_node_metadata(1) == {"kind": "a"}
print("ok")
