"""C01: a batched insertion must equal the same insertions on a plain map
node-set -> weight: every re-insertion adds its weight, one after the other,
whatever order the nodes of the hyperedge are listed in."""
from hypergraphx import Hypergraph


def model_add(model, edge, w):
    key = frozenset(edge)
    model[key] = model[key] + w if key in model else w


def check(first, batch, ws):
    h = Hypergraph(weighted=True)
    model = {}
    h.add_edge(first[0], weight=first[1])
    model_add(model, *first)
    h.add_edges(batch, weights=ws)
    for e, w in zip(batch, ws):
        model_add(model, e, w)
    got = {frozenset(e): w for e, w in h.get_weights(asdict=True).items()}
    assert got == model, (got, model)
    for e in batch:
        assert h.get_weight(e) == model[frozenset(e)], (e, h.get_weight(e))
    assert sorted(h.get_weights()) == sorted(model.values())


# huge weight already present, the same hyperedge listed twice (two node orders)
check(((1, 2), 1e16), [(1, 2), (2, 1), (2, 3)], [1.0, 1.0, 0.5])
# non-integer weights
check(((1, 2), 0.1), [(2, 1), (3, 4), (1, 2)], [0.2, 1.5, 0.3])
print("ok")
