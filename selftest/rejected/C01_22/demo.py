from hypergraphx import Hypergraph
h = Hypergraph()
h.add_nodes([1, 2], metadata={1: {"a": 1}, 2: {"b": 2}})
model = {1: {"a": 1}, 2: {"b": 2}}
assert h.get_nodes(metadata=True) == model
# batched insertion whose metadata map lacks an entry must be rejected
# and must leave the observable state unchanged
for md in ({}, {3: {"c": 3}}):
    rejected = False
    try:
        h.add_nodes([4], metadata=md)
    except ValueError:
        rejected = True
    assert rejected, "add_nodes accepted a metadata map without the node"
    assert sorted(h.get_nodes()) == [1, 2] and h.num_nodes() == 2
    assert h.get_nodes(metadata=True) == model
print("ok")
