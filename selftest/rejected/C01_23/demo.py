from hypergraphx import Hypergraph
for weighted in (False, True):
    h = Hypergraph(weighted=weighted)
    h.add_edge((1, 2, 3), weight=2 if weighted else None, metadata={"k": "v"})
    ref = h.copy()
    # reference: same sequence on an independent object, nodes listed in another order
    for g, e in ((h, (1, 2, 3)), (ref, (3, 1, 2))):
        g.add_edge(e, weight=2 if weighted else None)
    assert h.get_weight((1, 2, 3)) == ref.get_weight((1, 2, 3)) == (4 if weighted else 1)
    # model (original semantics): add_edge stores the given metadata, {} if none given
    model_md = {}
    assert h.get_edge_metadata((3, 2, 1)) == model_md, h.get_edge_metadata((1, 2, 3))
    assert h.get_edges(metadata=True) == {(1, 2, 3): model_md}
    # shrinking a hyperedge onto an existing one carries the removed edge's metadata
    g = Hypergraph(weighted=weighted)
    g.add_edge((2, 3), weight=1 if weighted else None, metadata={"old": 1})
    g.add_edge((1, 2, 3), weight=1 if weighted else None)
    g.remove_node(1, keep_edges=True)
    assert g.get_edges(metadata=True) == {(2, 3): {}}, g.get_edges(metadata=True)
print("ok")
