"""C01 demo 2: batched hyperedge removal where the batch is handed over as a
one-shot iterable (generator expression / filter / map / iterator) instead of a
list.  After the call every query must agree with a plain model in which the
listed hyperedges have been removed."""
from hypergraphx import Hypergraph


def build(weighted):
    edges = [(1, 2), (2, 3), (1, 2, 3), (3, 4, 5), (4, 5), (5, 6, 7, 8), (8,)]
    if weighted:
        ws = [1.5, 2.0, 0.5, 3.0, 4.0, 1.0, 2.5]
        hg = Hypergraph(edges, weighted=True, weights=ws)
    else:
        ws = [1] * len(edges)
        hg = Hypergraph(edges)
    nodes = set(range(1, 9))
    model = {frozenset(e): w for e, w in zip(edges, ws)}
    return hg, nodes, model


def check(hg, nodes, model):
    assert set(hg.get_nodes()) == nodes and hg.num_nodes() == len(nodes)
    listed = hg.get_edges()
    assert len(listed) == len(set(listed)) == hg.num_edges() == len(hg)
    assert {frozenset(e) for e in listed} == set(model), (
        "hyperedges differ: library {} vs model {}".format(
            sorted(listed), sorted(tuple(sorted(k)) for k in model)
        )
    )
    for k, w in model.items():
        assert hg.check_edge(tuple(k)) and hg.get_weight(tuple(k)) == w
    for size in range(0, 6):
        exp = {k for k in model if len(k) == size}
        assert {frozenset(e) for e in hg.get_edges(size=size)} == exp
        assert hg.num_edges(size=size) == len(exp)
        assert hg.num_edges(order=size - 1, up_to=True) == len(
            [k for k in model if len(k) <= size]
        )
    assert sorted(hg.get_sizes()) == sorted(len(k) for k in model)
    assert hg.is_uniform() == (len({len(k) for k in model}) <= 1)
    for n in nodes:
        inc = hg.get_incident_edges(n)
        exp = {k for k in model if n in k}
        assert len(inc) == len(set(inc)) == hg.degree(n) == len(exp)
        assert {frozenset(e) for e in inc} == exp
        neigh = set().union(*exp) - {n} if exp else set()
        assert hg.get_neighbors(n) == neigh


for weighted in (False, True):
    # (a) generator expression selecting the hyperedges to drop
    hg, nodes, model = build(weighted)
    check(hg, nodes, model)
    snapshot = hg.get_edges()
    hg.remove_edges(e for e in snapshot if len(e) == 2)
    for k in [k for k in model if len(k) == 2]:
        del model[k]
    check(hg, nodes, model)

    # (b) filter object, nodes listed in another order
    hg, nodes, model = build(weighted)
    hg.remove_edges(filter(lambda e: 3 in e, [(3, 2), (3, 2, 1), (5, 4, 3), (5, 4)]))
    for k in [(2, 3), (1, 2, 3), (3, 4, 5)]:
        del model[frozenset(k)]
    check(hg, nodes, model)

    # (c) plain iterator and map object
    hg, nodes, model = build(weighted)
    hg.remove_edges(iter([(8,), (1, 2)]))
    hg.remove_edges(map(tuple, [[4, 5], [8, 7, 6, 5]]))
    for k in [(8,), (1, 2), (4, 5), (5, 6, 7, 8)]:
        del model[frozenset(k)]
    check(hg, nodes, model)

    # (d) the same removals given as a list agree with the one-shot forms
    hg2, _, _ = build(weighted)
    hg2.remove_edges([(8,), (1, 2)])
    hg2.remove_edges([(4, 5), (8, 7, 6, 5)])
    assert set(hg2.get_edges()) == set(hg.get_edges())

    # (e) a refused batch (unknown hyperedge first) leaves no trace
    before = (set(hg.get_nodes()), hg.get_weights(asdict=True))
    try:
        hg.remove_edges(iter([(1, 99), (2, 3)]))
    except KeyError:
        pass
    else:
        raise AssertionError("removing an unknown hyperedge was not refused")
    assert (set(hg.get_nodes()), hg.get_weights(asdict=True)) == before

print("demo2 OK")
