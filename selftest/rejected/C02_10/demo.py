"""C02 demo 1.

A DirectedHypergraph that is handed a list of weights through add_edges is a
weighted hypergraph from then on (the library says so itself: "The hypergraph
will be weighted"), whatever the numeric values of those weights are.  From
that call on, inserting a hyperedge that already exists adds to its weight and
weights other than 1 are accepted.

The same sequence of calls is replayed on a plain model - a set of nodes plus
a map (source set, target set) -> weight - and every weight query is compared.
"""

import contextlib
import io

from hypergraphx import DirectedHypergraph


class Model:
    def __init__(self, weighted=False):
        self.weighted = weighted
        self.nodes = set()
        self.edges = {}  # (frozenset, frozenset) -> weight

    @staticmethod
    def key(edge):
        return (frozenset(edge[0]), frozenset(edge[1]))

    def add_edge(self, edge, weight=None):
        if weight is None:
            weight = 1
        k = self.key(edge)
        self.nodes |= k[0] | k[1]
        if k not in self.edges:
            self.edges[k] = weight if self.weighted else 1
        elif self.weighted:
            self.edges[k] += weight

    def add_edges(self, edges, weights=None):
        if weights is not None:
            self.weighted = True
        for i, e in enumerate(edges):
            self.add_edge(e, weights[i] if weights is not None else None)


def compare(h, m, where):
    got = {Model.key(e): w for e, w in h.get_weights(asdict=True).items()}
    assert got == m.edges, (where, got, m.edges)
    assert sorted(h.get_weights()) == sorted(m.edges.values()), where
    for (s, t), w in m.edges.items():
        # listing order of a source / target set is irrelevant
        e = (tuple(sorted(s, reverse=True)), tuple(sorted(t, reverse=True)))
        assert h.check_edge(e), (where, e)
        assert h.get_weight(e) == w, (where, e, h.get_weight(e), w)
    assert set(h.get_nodes()) == m.nodes, where


def quiet(fn, *a, **k):
    with contextlib.redirect_stdout(io.StringIO()):
        return fn(*a, **k)


e1 = ((1, 2), (3,))
e2 = ((3,), (4, 5))
e3 = ((5,), (1,))

for first_batch in ([1, 1], [1.0, 1], [1]):
    h = DirectedHypergraph()
    m = Model()
    batch = [e1, e2][: len(first_batch)]

    quiet(h.add_edges, batch, weights=first_batch)
    m.add_edges(batch, weights=first_batch)
    compare(h, m, "after first weighted batch")

    # the same hyperedge again, nodes listed in another order: weight adds up
    again = [((2, 1), (3,))]
    quiet(h.add_edges, again, weights=[1])
    m.add_edges(again, weights=[1])
    compare(h, m, "after re-inserting an existing hyperedge")

    # a genuinely weighted insertion is now accepted
    h.add_edge(e3, weight=2.5)
    m.add_edge(e3, weight=2.5)
    compare(h, m, "after inserting a hyperedge of weight 2.5")

    h.add_edge(e3, weight=0.5)
    m.add_edge(e3, weight=0.5)
    compare(h, m, "after adding 0.5 to that hyperedge")

    c = h.copy()
    c.add_edge(e1, weight=4)
    m.add_edge(e1, weight=4)
    compare(c, m, "on a copy")

print("ok")
