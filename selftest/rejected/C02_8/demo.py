"""C02: a batch of directed hyperedges handed over as a one-shot iterable
(zip of sources and targets, generator expression, iterator, map object)
must produce the same container as the same batch handed over as a list."""
from hypergraphx import DirectedHypergraph


def norm(edge):
    return (tuple(sorted(edge[0])), tuple(sorted(edge[1])))


class Model:
    """a set of nodes plus a map (source set, target set) -> (weight, metadata)"""

    def __init__(self, weighted):
        self.weighted = weighted
        self.nodes = {}
        self.edges = {}

    def add_edges(self, edges):
        for e in edges:
            key = (frozenset(e[0]), frozenset(e[1]))
            for n in key[0] | key[1]:
                self.nodes.setdefault(n, {})
            if key in self.edges:
                w = self.edges[key][0] + 1 if self.weighted else 1
            else:
                w = 1
            self.edges[key] = (w, {})


def check(hg, model, label):
    keyset = lambda edges: sorted(
        (tuple(sorted(e[0])), tuple(sorted(e[1]))) for e in edges
    )
    expected = sorted((tuple(sorted(s)), tuple(sorted(t))) for s, t in model.edges)
    assert sorted(hg.get_nodes()) == sorted(model.nodes), (label, "nodes")
    assert keyset(hg.get_edges()) == expected, (label, "edges", hg.get_edges())
    assert hg.num_edges() == len(model.edges), (label, "num_edges")
    assert sorted(hg.get_sources()) == sorted(e[0] for e in expected), label
    assert sorted(hg.get_targets()) == sorted(e[1] for e in expected), label
    for (s, t), (w, md) in model.edges.items():
        e = (tuple(sorted(s)), tuple(sorted(t)))
        assert hg.check_edge(e), (label, "membership", e)
        assert hg.get_weight(e) == w, (label, "weight", e)
        assert hg.get_edge_metadata(e) == md, (label, "metadata", e)
    for size in range(1, 7):
        exp = [e for e in expected if len(e[0]) + len(e[1]) == size]
        assert keyset(hg.get_edges(size=size)) == exp, (label, "size filter", size)
        assert keyset(hg.get_edges(order=size - 1)) == exp, (label, "order", size)
    for n in model.nodes:
        src = [e for e in expected if n in e[0]]
        tgt = [e for e in expected if n in e[1]]
        assert keyset(hg.get_source_edges(n)) == src, (label, "source edges", n)
        assert keyset(hg.get_target_edges(n)) == tgt, (label, "target edges", n)
        assert keyset(hg.get_incident_edges(n)) == sorted(src + tgt), (label, n)
        assert hg.degree(n) == len(src) + len(tgt), (label, "degree", n)
        neigh = set()
        for e in src + tgt:
            neigh.update(e[0])
            neigh.update(e[1])
        neigh.discard(n)
        assert hg.get_neighbors(n) == neigh, (label, "neighbours", n)


BATCH_1 = [
    ((1, 2), (3,)),
    ((3,), (4, 5)),
    ((5, 1), (2, 6, 7)),
    ((4,), (1,)),
]
BATCH_2 = [
    ((7,), (8, 9)),
    ((2, 1), (3,)),  # already present, nodes listed in another order
    ((9, 8), (1,)),
]

forms = {
    "list": lambda b: list(b),
    "tuple": lambda b: tuple(b),
    "zip(sources, targets)": lambda b: zip([e[0] for e in b], [e[1] for e in b]),
    "generator": lambda b: (e for e in b),
    "iterator": lambda b: iter(b),
    "map": lambda b: map(norm, b),
    "dict keys": lambda b: {e: None for e in b}.keys(),
}

for weighted in (False, True):
    for name, form in forms.items():
        label = (name, "weighted" if weighted else "unweighted")
        # route 1: add_edges on an existing object, after every prefix
        hg = DirectedHypergraph(weighted=weighted)
        model = Model(weighted)
        hg.add_node(0, metadata={"kind": "isolated"})
        model.nodes[0] = {"kind": "isolated"}
        check(hg, model, label + ("empty",))
        hg.add_edges(form(BATCH_1))
        model.add_edges(BATCH_1)
        check(hg, model, label + ("after first batch",))
        hg.add_edges(form(BATCH_2))
        model.add_edges(BATCH_2)
        check(hg, model, label + ("after second batch",))
        assert hg.get_node_metadata(0) == {"kind": "isolated"}

        # route 2: the same batch through the constructor
        hg2 = DirectedHypergraph(edge_list=form(BATCH_1), weighted=weighted)
        model2 = Model(weighted)
        model2.add_edges(BATCH_1)
        check(hg2, model2, label + ("constructor",))

# rebuilding a container from the sources and targets of another one
src = DirectedHypergraph(BATCH_1 + BATCH_2)
rebuilt = DirectedHypergraph()
rebuilt.add_edges(zip(src.get_sources(), src.get_targets()))
assert sorted(rebuilt.get_edges()) == sorted(src.get_edges()), rebuilt.get_edges()
assert sorted(rebuilt.get_nodes()) == sorted(src.get_nodes())

print("ok")
