"""C03: a time window (a, b) selects exactly the records with a <= t < b."""
from hypergraphx import TemporalHypergraph

for weighted in (False, True):
    T = TemporalHypergraph(weighted=weighted)
    model = {}
    calls = [((), 0), ((1, 2), 0), ((), 2), ((2, 3), 2), ((1, 2, 3), 3), ((), 3)]
    for edge, t in calls:
        T.add_edge(edge, t)
        model[(t, tuple(sorted(edge)))] = 1
    assert sorted(T.get_edges()) == sorted(model)
    for a in range(-1, 6):
        for b in range(-1, 6):
            expected = sorted(k for k in model if a <= k[0] < b)
            got = sorted(T.get_edges(time_window=(a, b)))
            assert got == expected, ((a, b), got, expected)
            got0 = sorted(T.get_edges(time_window=(a, b), size=0))
            assert got0 == [k for k in expected if len(k[1]) == 0], ((a, b), got0)
    # listing did not change the object
    assert sorted(T.get_edges()) == sorted(model)
print("ok")
