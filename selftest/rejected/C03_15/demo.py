from hypergraphx import TemporalHypergraph

T = TemporalHypergraph(weighted=True)
node_model = {}
for n, m in [("a", {"role": "x"}), ("b", {"role": "y"}), ("c", {}), ("d", {"role": "z"})]:
    T.add_node(n, metadata=dict(m))
    node_model[n] = dict(m)
edge_model = {}
for t, e, w in [(0, ("a", "b"), 2.0), (1, ("a", "b"), 1.5), (3, ("b", "c"), 4.0)]:
    T.add_edge(e, t, weight=w)
    edge_model[(t, e)] = w

for n, m in node_model.items():
    assert T.get_node_metadata(n) == m

agg = T.aggregate(2)
assert sorted(agg) == [0, 1]
expected_edges = {0: {("a", "b"): 3.5}, 1: {("b", "c"): 4.0}}
for k, H in agg.items():
    assert {e: H.get_weight(e) for e in H.get_edges()} == expected_edges[k]
    # every window's hypergraph contains all nodes of the temporal hypergraph,
    # i.e. the same nodes carrying the same node records
    assert sorted(H.get_nodes()) == sorted(node_model)
    got = {n: H.get_node_metadata(n) for n in H.get_nodes()}
    assert got == node_model, (k, got)
for n, m in node_model.items():
    assert T.get_node_metadata(n) == m
print("ok")
