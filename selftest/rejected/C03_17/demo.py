from hypergraphx import TemporalHypergraph


def model_neighbors(model, node):
    out = set()
    for (_t, e) in model:
        if node in e:
            out.update(e)
    out.discard(node)
    return out


def battery(th, model, nodes):
    assert sorted(th.get_edges()) == sorted(model)
    for n in nodes:
        exp = model_neighbors(model, n)
        assert th.get_neighbors(n) == exp, (n, th.get_neighbors(n), exp)
        assert th.is_isolated(n) == (len(exp) == 0), n
    assert sorted(th.isolated_nodes()) == sorted(
        n for n in nodes if not model_neighbors(model, n)
    )


th = TemporalHypergraph()
model = {}
for t, e in [(0, (1, 2)), (1, (2, 3)), (1, (1, 4, 5))]:
    th.add_edge(e, t)
    model[(t, e)] = 1
nodes = [1, 2, 3, 4, 5]
battery(th, model, nodes)

# the caller works on the set it was handed (its own object): who else does
# node 1 meet, apart from node 2?
others = th.get_neighbors(1)
others.discard(2)
assert others == {4, 5}

# no call changed the temporal hypergraph, so every query still equals the model
battery(th, model, nodes)

# ... also for a copy taken now, and after an unrelated metadata update
th.set_node_metadata(3, {"colour": "red"})
battery(th, model, nodes)
battery(th.copy(), model, nodes)
print("ok")
