"""C03: snapshots / aggregate windows hold exactly the hyperedges of their times."""
from hypergraphx import TemporalHypergraph

f = frozenset


def check(records, weighted, w):
    T = TemporalHypergraph(weighted=weighted)
    for (t, e), wt in records.items():
        T.add_edge(tuple(sorted(e)), t, weight=wt if weighted else None)
    before = sorted(T.get_edges(), key=repr), T.get_weights(asdict=True)
    # the temporal hypergraph itself agrees with the model
    assert {(t, f(e)) for t, e in T.get_edges()} == set(records)

    tmax = max(t for t, _ in records)
    exp = {i: {} for i in range(tmax // w + 1)}
    for (t, e), wt in records.items():
        d = exp[t // w]
        d[e] = (d.get(e, 0) + wt) if weighted else 1
    agg = T.aggregate(w)
    assert sorted(agg) == sorted(exp)
    for i, H in agg.items():
        got = {f(e): H.get_weight(e) for e in H.get_edges()}
        assert got == exp[i], ("aggregate", i, got, exp[i])
        assert set(H.get_nodes()) == set(T.get_nodes())

    snaps = T.subhypergraph()
    times = {t for t, _ in records}
    assert set(snaps) == times, ("snapshot times", set(snaps), times)
    for t, H in snaps.items():
        got = {f(e): H.get_weight(e) for e in H.get_edges()}
        want = {e: (wt if weighted else 1) for (tt, e), wt in records.items() if tt == t}
        assert got == want, ("snapshot", t, got, want)

    assert (sorted(T.get_edges(), key=repr), T.get_weights(asdict=True)) == before


# ordinary hyperedges, including a single-node one
check({(0, f({1, 2})): 2, (1, f({1, 2})): 3, (1, f({3})): 1, (4, f({1, 2, 3})): 5}, True, 2)
check({(0, f({1, 2})): 1, (1, f({1, 2})): 1, (3, f({2, 3})): 1}, False, 2)
# the empty hyperedge is a record like any other
check({(0, f()): 2, (1, f({1, 2})): 3, (1, f()): 4, (5, f({2, 3})): 1}, True, 2)
check({(0, f({1, 2})): 1, (3, f()): 1}, False, 2)
print("ok")
