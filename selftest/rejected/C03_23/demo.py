from hypergraphx import TemporalHypergraph

th = TemporalHypergraph(weighted=True)
model = {}
for e, t, w in [((), 2, 5), ((1, 2), 2, 1), ((1, 2, 3), 3, 2), ((2, 3), 0, 4), ((), 4, 7)]:
    th.add_edge(e, t, weight=w)
    model[(t, tuple(sorted(e)))] = w

for a in range(0, 6):
    for b in range(a, 7):
        exp = sorted(k for k in model if a <= k[0] < b)
        got = sorted(th.get_edges(time_window=(a, b)))
        assert got == exp, ((a, b), got, exp)
        got1 = sorted(th.get_edges((a, b), None, 1))  # size 1 -> none
        assert got1 == [k for k in exp if len(k[1]) == 1]
        got0 = sorted(th.get_edges(time_window=(a, b), size=0))
        assert got0 == [k for k in exp if len(k[1]) == 0], ((a, b), got0)
assert sorted(th.get_weights(asdict=True).items()) == sorted(model.items())
print("ok")
