"""C03: remove_nodes over a batch of nodes must have the same effect on every
query as the same removals applied to a map (time, node set) -> (weight, metadata),
whatever iterable the batch of nodes is handed over as (list, tuple, set, dict view,
generator, iterator)."""
from hypergraphx import TemporalHypergraph

RECORDS = [
    # (nodes, time, weight, metadata)
    ((1, 2, 3), 0, 2.0, {"k": "a"}),
    ((2, 3), 0, 0.5, {"k": "b"}),
    ((1, 4), 1, 1.5, {"k": "c"}),
    ((4, 5, 6), 2, 3.0, {"k": "d"}),
    ((2, 5), 2, 4.0, {"k": "e"}),
    ((6, 7), 3, 1.0, {"k": "f"}),
    ((5,), 3, 7.0, {"k": "g"}),
]
ISOLATED = [8, 9]


def build():
    h = TemporalHypergraph(weighted=True)
    model = {}
    nodes = set()
    for e, t, w, md in RECORDS:
        h.add_edge(e, t, weight=w, metadata=dict(md))
        model[(t, frozenset(e))] = (w, dict(md))
        nodes.update(e)
    h.add_nodes(list(ISOLATED))
    nodes.update(ISOLATED)
    return h, model, nodes


def model_remove(model, nodes, node, keep_edges):
    assert node in nodes
    new = {}
    moved = []
    for (t, e), (w, md) in model.items():
        if node not in e:
            new[(t, e)] = (w, md)
        elif keep_edges and len(e) > 1:
            moved.append(((t, e - {node}), (w, md)))
    for k, (w, md) in moved:
        if k in new:  # weighted container: repeats add up, last metadata stays
            new[k] = (new[k][0] + w, md)
        else:
            new[k] = (w, md)
    nodes.discard(node)
    return new


def check(h, model, nodes, label):
    assert set(h.get_nodes()) == nodes, (label, "nodes", h.get_nodes(), nodes)
    assert h.num_nodes() == len(nodes), (label, "num_nodes")
    got = {(t, frozenset(e)) for t, e in h.get_edges()}
    assert got == set(model), (label, "edges", got, set(model))
    assert h.num_edges() == len(model), (label, "num_edges")
    for (t, e), (w, md) in model.items():
        assert h.get_weight(tuple(e), t) == w, (label, "weight", t, e)
        assert h.get_edge_metadata(tuple(e), t) == md, (label, "metadata", t, e)
    for n in nodes:
        inc = {(t, frozenset(e)) for t, e in h.get_incident_edges(n)}
        exp = {k for k in model if n in k[1]}
        assert inc == exp, (label, "incident", n, inc, exp)
        assert h.degree(n) == len(exp), (label, "degree", n)
        neigh = set().union(*[k[1] for k in exp]) - {n} if exp else set()
        assert set(h.get_neighbors(n)) == neigh, (label, "neighbours", n)
    for a, b in [(0, 2), (1, 4), (2, 3)]:
        got = {(t, frozenset(e)) for t, e in h.get_edges(time_window=(a, b))}
        exp = {k for k in model if a <= k[0] < b}
        assert got == exp, (label, "window", a, b, got, exp)
    for n in (1, 2, 3, 4, 5, 6, 7, 8, 9):
        assert h.check_node(n) == (n in nodes), (label, "check_node", n)


FORMS = {
    "list": lambda b: list(b),
    "tuple": lambda b: tuple(b),
    "dict keys view": lambda b: dict.fromkeys(b).keys(),
    "generator": lambda b: (n for n in b),
    "iterator": lambda b: iter(list(b)),
    "map object": lambda b: map(int, b),
}

for keep_edges in (False, True):
    for batch in ([2], [2, 5], [5, 8, 1], [9]):
        for name, form in FORMS.items():
            h, model, nodes = build()
            check(h, model, nodes, "before")
            h.remove_nodes(form(batch), keep_edges=keep_edges)
            for n in batch:
                model = model_remove(model, nodes, n, keep_edges)
            check(h, model, nodes, (name, tuple(batch), keep_edges))

print("ok")
