"""C04 demo 2: a batch insertion add_edges(edges, layers) produces the same
multiplex hypergraph as the reference map whatever iterable carries the hyperedges:
a list, a tuple, dict keys, or a one-shot iterator (itertools.combinations, a
generator expression, map, iter)."""
import itertools

from hypergraphx import MultiplexHypergraph
from hypergraphx.measures.multiplex.overlap import edge_overlap


def model_after(batches, weighted):
    """map (node set, layer) -> [weight, metadata] after the batches (no weights given)."""
    rec, nodes = {}, set()
    for edges, layers, metadata in batches:
        for i, e in enumerate(edges):
            k = (tuple(sorted(e)), layers[i])
            if k not in rec:
                rec[k] = [1, {}]
            elif weighted:
                rec[k][0] += 1
            rec[k][1] = {} if metadata is None else metadata[i]
            nodes.update(k[0])
    return nodes, rec


def check(h, nodes, rec, weighted, tag):
    assert set(h.get_nodes()) == nodes, (tag, sorted(h.get_nodes()), sorted(nodes))
    assert set(h.get_edges()) == set(rec) and len(h.get_edges()) == len(rec), tag
    for (e, l), (w, md) in rec.items():
        assert h.get_weight(e, l) == w, (tag, e, l)
        assert h.get_edge_metadata(e, l) == md, (tag, e, l)
    for n in nodes:
        inc = {k for k in rec if n in k[0]}
        got = h.get_incident_edges(n)
        assert set(got) == inc and len(got) == len(inc), (tag, n)
        assert h.degree(n) == len(inc), (tag, n)
        assert h.degree_sequence()[n] == len(inc), (tag, n)
    assert set(h.get_existing_layers()) >= {l for _, l in rec}, tag
    sums = {}
    for (e, l), (w, _) in rec.items():
        sums[e] = sums.get(e, 0) + w
    agg = h.aggregated_hypergraph()
    assert set(agg.get_nodes()) == nodes, tag
    assert set(agg.get_edges()) == set(sums), tag
    for e, s in sums.items():
        assert agg.get_weight(e) == (s if weighted else 1), (tag, e)
        assert edge_overlap(h, e) == s, (tag, e)
    assert set(h.get_edges()) == set(rec), tag  # unchanged by the two computations


nodes_a = [4, 2, 7, 1]
pairs = list(itertools.combinations(nodes_a, 2))  # 6 pairs, nodes in unusual order
triples = [(9, 2, 4), (7, 1, 2), (4, 2, 9)]
md = [{"i": i} for i in range(len(triples))]

forms = {
    "list": lambda x: list(x),
    "tuple": lambda x: tuple(x),
    "dict keys": lambda x: dict.fromkeys(x).keys() if len(set(x)) == len(x) else list(x),
    "combinations / iter": lambda x: (
        itertools.combinations(nodes_a, 2) if x is pairs else iter(x)
    ),
    "generator": lambda x: (e for e in x),
    "map": lambda x: map(tuple, x),
}

for weighted in (False, True):
    batches = [
        (pairs, ["a"] * len(pairs), None),
        (pairs[:3], ["b"] * 3, None),
        (triples, ["a", "b", "a"], md),
        (pairs[2:5], ["a", "b", "b"], None),
    ]
    for name, conv in forms.items():
        h = MultiplexHypergraph(weighted=weighted)
        h.add_node(100)
        done = []
        for edges, layers, metadata in batches:
            if metadata is None:
                h.add_edges(conv(edges), layers)
            else:
                h.add_edges(conv(edges), layers, metadata=metadata)
            done.append((edges, layers, metadata))
            nodes, rec = model_after(done, weighted)
            check(h, nodes | {100}, rec, weighted, (weighted, name, len(done)))
print("ok")
