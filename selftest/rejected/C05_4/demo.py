"""C05 demo 2: get_edges(..., subhypergraph=True, keep_isolated_nodes=True) returns
the selected hyperedges (weights, metadata) on the full node set, and the extracted
hypergraph and the source are independent objects: editing the structure of one of
them must not change any observable aspect of the other."""
import copy

from hypergraphx import Hypergraph


def observe(h):
    """Deep snapshot of everything observable through the public API."""
    edges = h.get_edges()
    return copy.deepcopy(
        {
            "weighted": h.is_weighted(),
            "nodes": {n: h.get_node_metadata(n) for n in h.get_nodes()},
            "edges": {e: (h.get_weight(e), h.get_edge_metadata(e)) for e in edges},
            "incident": {n: sorted(h.get_incident_edges(n)) for n in h.get_nodes()},
            "num_nodes": h.num_nodes(),
            "num_edges": h.num_edges(),
        }
    )


def build():
    h = Hypergraph(weighted=True)
    for n in range(1, 8):
        h.add_node(n, metadata={"label": "n%d" % n})
    h.add_edge((1,), weight=0.5, metadata={"k": "s"})
    h.add_edge((1, 2), weight=2.0, metadata={"k": "a"})
    h.add_edge((2, 3), weight=3.0, metadata={"k": "b"})
    h.add_edge((3, 4, 5), weight=4.0, metadata={"k": "c"})
    h.add_edge((1, 5, 6), weight=5.0, metadata={"k": "d"})
    # node 7 is isolated
    return h


def expected(before, keep):
    return {
        "weighted": before["weighted"],
        "nodes": before["nodes"],
        "edges": {e: v for e, v in before["edges"].items() if keep(e)},
    }


def check_selection(order, up_to):
    h = build()
    before = observe(h)
    sub = h.get_edges(
        order=order, up_to=up_to, subhypergraph=True, keep_isolated_nodes=True
    )
    if order is None:
        keep = lambda e: True
    elif up_to:
        keep = lambda e: len(e) - 1 <= order
    else:
        keep = lambda e: len(e) - 1 == order
    exp = expected(before, keep)
    got = observe(sub)
    assert got["weighted"] == exp["weighted"]
    assert got["nodes"] == exp["nodes"], (got["nodes"], exp["nodes"])
    assert got["edges"] == exp["edges"], (got["edges"], exp["edges"])
    assert observe(h) == before, "extraction changed the source"

    # --- edit the extracted hypergraph: the source must not notice -------------
    sub_before = observe(sub)
    sub.add_edge((2, 6, 9), weight=9.0, metadata={"k": "new"})
    sub.add_node(10, metadata={"label": "n10"})
    if sub.check_edge((1, 2)):
        sub.set_weight((1, 2), 20.0)
        sub.remove_edge((1, 2))
    sub.remove_node(7)
    assert observe(sub) != sub_before
    assert observe(h) == before, (
        "editing the extracted hypergraph changed the source",
        order,
        up_to,
    )

    # --- edit the source: the extracted hypergraph must not notice -------------
    sub_now = observe(sub)
    h.add_edge((4, 7), weight=7.0, metadata={"k": "src"})
    h.set_weight((2, 3), 30.0)
    h.remove_edge((1,))
    h.remove_node(6)
    assert observe(sub) == sub_now, (
        "editing the source changed the extracted hypergraph",
        order,
        up_to,
    )


for order, up_to in [
    (1, False),
    (1, True),
    (0, True),
    (2, False),
    (2, True),  # max order: every hyperedge satisfies the selection
    (5, True),  # above max order
    (None, False),  # no filter at all
]:
    check_selection(order, up_to)

print("demo2 OK")
