"""C05 demo 3: for a DirectedHypergraph, get_edges(order|size, up_to, subhypergraph=True,
keep_isolated_nodes) returns exactly the hyperedges whose size (as reported by the
hypergraph itself through get_sizes()/get_orders(): |source| + |target|) satisfies
the selection, with their weights and metadata, on the documented node set."""
import copy

from hypergraphx import DirectedHypergraph


def observe(h):
    edges = h.get_edges()
    return copy.deepcopy(
        {
            "weighted": h.is_weighted(),
            "nodes": {n: h.get_node_metadata(n) for n in h.get_nodes()},
            "edges": {e: (h.get_weight(e), h.get_edge_metadata(e)) for e in edges},
        }
    )


h = DirectedHypergraph(weighted=True)
for n in range(1, 8):
    h.add_node(n, metadata={"label": "n%d" % n})
h.add_edge(((1,), (2,)), weight=2.0, metadata={"k": "a"})
h.add_edge(((1, 2), (3,)), weight=3.0, metadata={"k": "b"})
h.add_edge(((3,), (4, 5)), weight=4.0, metadata={"k": "c"})
h.add_edge(((1, 2), (5, 6)), weight=5.0, metadata={"k": "d"})
# a feedback hyperedge: node 2 is both consumed and produced
h.add_edge(((1, 2), (2, 3)), weight=6.0, metadata={"k": "loop"})
# a self-loop
h.add_edge(((4,), (4,)), weight=7.0, metadata={"k": "self"})
# node 7 is isolated

before = observe(h)
# the size of a hyperedge as the hypergraph itself reports it
size_of = dict(zip(h.get_edges(), h.get_sizes()))
assert size_of == {e: len(e[0]) + len(e[1]) for e in h.get_edges()}
assert [s - 1 for s in h.get_sizes()] == h.get_orders()

for size in range(1, 6):
    for up_to in (False, True):
        for keep_isolated in (False, True):
            for by in ("size", "order"):
                kwargs = {"size": size} if by == "size" else {"order": size - 1}
                sub = h.get_edges(
                    up_to=up_to,
                    subhypergraph=True,
                    keep_isolated_nodes=keep_isolated,
                    **kwargs,
                )
                if up_to:
                    keep = {e for e, s in size_of.items() if s <= size}
                else:
                    keep = {e for e, s in size_of.items() if s == size}
                exp_edges = {e: before["edges"][e] for e in keep}
                if keep_isolated:
                    exp_nodes = before["nodes"]
                else:
                    covered = {n for e in keep for part in e for n in part}
                    exp_nodes = {n: before["nodes"][n] for n in covered}
                got = observe(sub)
                ctx = (by, size, up_to, keep_isolated)
                assert got["weighted"] == before["weighted"], ctx
                assert got["edges"] == exp_edges, (ctx, got["edges"], exp_edges)
                assert got["nodes"] == exp_nodes, (ctx, got["nodes"], exp_nodes)
                assert observe(h) == before, ctx

print("demo3 OK")
