"""C05 / DirectedHypergraph.get_edges(order|size, up_to, subhypergraph=True,
keep_isolated_nodes): the extracted hypergraph has the weightedness of the
source, exactly the hyperedges that satisfy the selection (original weights and
metadata) and exactly the documented node set (original node metadata); the
source is left untouched.

The size of a directed hyperedge is what the source itself reports through
get_sizes() (order = size - 1). Some hyperedges below have a node on both
sides (a catalyst that is consumed and produced again).
"""
import copy as _copy
import itertools

from hypergraphx import DirectedHypergraph


def snapshot(h):
    return _copy.deepcopy(
        {
            "weighted": h.is_weighted(),
            "nodes": sorted(h.get_nodes()),
            "node_md": {n: h.get_node_metadata(n) for n in h.get_nodes()},
            "edges": sorted(h.get_edges()),
            "sizes": h.get_sizes(),
            "weights": {e: h.get_weight(e) for e in h.get_edges()},
            "edge_md": {e: h.get_edge_metadata(e) for e in h.get_edges()},
        }
    )


EDGES = [
    ((1,), (2,)),              # size 2
    ((2,), (1,)),              # size 2, reversed
    ((1, 2), (3,)),            # size 3
    ((1, 2), (2, 3)),          # size 4, node 2 on both sides
    ((4, 5), (4, 6)),          # size 4, node 4 on both sides
    ((3,), (3,)),              # size 2, same node on both sides
    ((1, 2, 3), (4, 5)),       # size 5
    ((6, 7), (5, 6, 7)),       # size 5, nodes 6 and 7 on both sides
]
WEIGHTS = [2.0, 0.5, 3, 7.25, 1.5, 4, 0.0, 9]


def build(weighted):
    h = DirectedHypergraph(weighted=weighted)
    for n in range(1, 8):
        h.add_node(n, metadata={"name": "n%d" % n})
    h.add_node(99, metadata={"name": "isolated"})
    for i, e in enumerate(EDGES):
        h.add_edge(e, weight=WEIGHTS[i] if weighted else None, metadata={"idx": i})
    return h


for weighted in (False, True):
    h = build(weighted)
    before = snapshot(h)

    # the size the source reports for each of its hyperedges
    size_of = dict(zip(h.get_edges(), h.get_sizes()))
    assert all(size_of[e] == len(e[0]) + len(e[1]) for e in size_of)

    for k, by_size, up_to, keep in itertools.product(
        range(0, 7), (False, True), (False, True), (False, True)
    ):
        size = k if by_size else k + 1
        kwargs = {"size": size} if by_size else {"order": size - 1}
        sub = h.get_edges(
            up_to=up_to, subhypergraph=True, keep_isolated_nodes=keep, **kwargs
        )
        what = "weighted=%s %r up_to=%s keep_isolated_nodes=%s" % (
            weighted, kwargs, up_to, keep,
        )

        expected_edges = sorted(
            e for e, s in size_of.items() if (s <= size if up_to else s == size)
        )
        assert isinstance(sub, DirectedHypergraph), what
        assert sub.is_weighted() == weighted, what
        assert sorted(sub.get_edges()) == expected_edges, (
            "%s: hyperedges %r, expected %r"
            % (what, sorted(sub.get_edges()), expected_edges)
        )
        for e in expected_edges:
            assert sub.get_weight(e) == h.get_weight(e), what
            assert sub.get_edge_metadata(e) == h.get_edge_metadata(e), what

        if keep:
            expected_nodes = set(h.get_nodes())
        else:
            expected_nodes = set()
            for s, t in expected_edges:
                expected_nodes.update(s)
                expected_nodes.update(t)
        assert len(sub.get_nodes()) == len(set(sub.get_nodes())), what
        assert set(sub.get_nodes()) == expected_nodes, (
            "%s: nodes %r, expected %r" % (what, sub.get_nodes(), expected_nodes)
        )
        for n in expected_nodes:
            assert sub.get_node_metadata(n) == h.get_node_metadata(n), what

        assert snapshot(h) == before, what + ": the source changed"

print("OK")
