"""C10, bipartite projection: one vertex per node and per hyperedge, joined exactly
on membership, and the id table maps every vertex back to its node / hyperedge.

The hypergraph mixes integer and string node labels (e.g. ids read from a file
where only part of the column was parsed as numbers); no hyperedge mixes kinds."""
from hypergraphx import Hypergraph
from hypergraphx.representations.projections import bipartite_projection

h = Hypergraph()
h.add_nodes([1, 2, 3, "1", "2", "x", 7])  # 7 is isolated
h.add_edges([(1, 2), (1, 2, 3), ("1", "2"), ("1", "x"), (3,)])

nodes = h.get_nodes()
edges = [tuple(sorted(e)) for e in h.get_edges()]
g, table = bipartite_projection(h)

assert g.number_of_nodes() == len(nodes) + len(edges), (
    g.number_of_nodes(), len(nodes) + len(edges))
assert set(table) == set(g.nodes())
node_side = [v for v, o in table.items() if not isinstance(o, tuple)]
edge_side = [v for v, o in table.items() if isinstance(o, tuple)]
assert sorted(map(repr, (table[v] for v in node_side))) == sorted(map(repr, nodes))
assert sorted((tuple(sorted(table[v])) for v in edge_side), key=repr) == sorted(edges, key=repr)

expected = {(repr(n), e) for e in edges for n in e}
got = set()
for u, v in g.edges():
    if isinstance(table[u], tuple):
        u, v = v, u
    assert not isinstance(table[u], tuple) and isinstance(table[v], tuple)
    got.add((repr(table[u]), tuple(sorted(table[v]))))
assert got == expected, (got ^ expected)
assert g.number_of_edges() == len(expected)
print("ok")
