from hypergraphx import DirectedHypergraph
from hypergraphx.representations.projections import directed_line_graph

E = [((1, 2), (3,)), ((3,), (4, 5)), ((4, 5), (1,)), ((6,), (3, 7))]
h = DirectedHypergraph(E)
h.add_node(9)  # isolated node

# the caller uses the listing it was given as a work list and empties it
todo = h.get_edges()
while todo:
    todo.pop()

# the hypergraph itself was never edited
assert h.num_edges() == 4 and all(h.check_edge(e) for e in E)

for distance in ("intersection", "jaccard"):
    for s in ((1, 2) if distance == "intersection" else (0.3, 0.5, 1.0)):
        for weighted in (False, True):
            g, ids = directed_line_graph(h, distance=distance, s=s, weighted=weighted)
            assert sorted(ids.values()) == sorted(E), ids
            assert sorted(g.nodes()) == sorted(ids)
            expected = {}
            for a in ids:
                for b in ids:
                    if a != b:
                        T, S = set(ids[a][1]), set(ids[b][0])
                        w = len(T & S) if distance == "intersection" else len(T & S) / len(T | S)
                        if w >= s:
                            expected[(a, b)] = w
            got = {(u, v): d.get("weight") for u, v, d in g.edges(data=True)}
            assert set(got) == set(expected), (distance, s, weighted, sorted(got))
            if weighted:
                assert got == expected
print("ok")
