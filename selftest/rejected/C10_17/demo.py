from hypergraphx import Hypergraph
from hypergraphx.representations.projections import line_graph

EDGES = [(1, 2), (1, 2, 3), (3, 4, 5), (5,)]


def check(h, g, ids, s):
    es = [tuple(sorted(e)) for e in h.get_edges()]
    assert sorted(ids.values()) == sorted(es)
    assert set(g.nodes()) == set(ids), (set(g.nodes()), set(ids))
    got = {frozenset((ids[a], ids[b])) for a, b in g.edges()}
    exp = {
        frozenset((e, f))
        for e in es
        for f in es
        if e < f and len(set(e) & set(f)) >= s
    }
    assert got == exp, (got, exp)


h1 = Hypergraph(EDGES)
g1, ids1 = line_graph(h1, distance="intersection", s=1)
check(h1, g1, ids1, 1)

# the caller keeps working on the graph it was given
g1.remove_node(0)
ids1.pop(0)

# a different hypergraph object with the same hyperedges
h2 = Hypergraph(EDGES)
g2, ids2 = line_graph(h2, distance="intersection", s=1)
check(h2, g2, ids2, 1)

# and the first object again
g3, ids3 = line_graph(h1, distance="intersection", s=1)
check(h1, g3, ids3, 1)
print("ok")
