"""C14, random_shuffle / random_shuffle_all_orders: p = 0 changes nothing, and
with inplace=False the argument is left untouched.

inplace=False means "operate on a copy and return it" (docstring).  The caller
goes on working with the hypergraph that was returned - here with two more C14
calls, an in-place shuffle and add_random_edges - and the hypergraph that was
handed over with inplace=False must still be what it was.
"""
import copy
import sys
import warnings

from hypergraphx import Hypergraph
from hypergraphx.generation.random import (
    add_random_edges,
    random_shuffle,
    random_shuffle_all_orders,
)

warnings.simplefilter("ignore")  # numpy warns about 0/0 for an empty node pool


def snapshot(h):
    return {
        "weighted": h.is_weighted(),
        "nodes": {n: copy.deepcopy(h.get_node_metadata(n)) for n in h.get_nodes()},
        "edges": {
            e: (h.get_weight(e), copy.deepcopy(h.get_edge_metadata(e)))
            for e in h.get_edges()
        },
    }


def build(weighted):
    edges = [(0, 1, 2), (2, 3, 4), (4, 5, 6), (1, 5, 7), (1, 2), (3, 4), (6, 7), (0, 3, 5, 7)]
    if weighted:
        h = Hypergraph(edges, weighted=True, weights=[2.5, 1.0, 0.5, 3.0, 4.0, 1.5, 2.0, 7.0])
    else:
        h = Hypergraph(edges)
    h.add_node(8)  # isolated node
    h.set_node_metadata(0, {"role": "hub"})
    h.set_edge_metadata((2, 3, 4), {"tag": "t"})
    return h


def carry_on_with(result, seed):
    """What a caller does with the hypergraph it got back."""
    random_shuffle(result, size=3, p=1.0, inplace=True, seed=seed)
    add_random_edges(result, 2, size=2, inplace=True, seed=seed)


checked = 0
for weighted in (False, True):
    for seed in range(5):
        for p in (0.0, 0.5, 1.0):
            for size_kw in ({"size": 3}, {"order": 2}, {"size": 2}, {"size": 5}):
                hg = build(weighted)
                before = snapshot(hg)
                out = random_shuffle(hg, p=p, inplace=False, seed=seed, **size_kw)
                assert isinstance(out, Hypergraph), "inplace=False must return a hypergraph"
                assert snapshot(hg) == before, "argument changed by the call itself"
                if p == 0.0:
                    assert snapshot(out) == before, "p = 0 changed something"
                carry_on_with(out, seed)
                assert snapshot(hg) == before, (
                    f"random_shuffle(hg, {size_kw}, p={p}, inplace=False, seed={seed}): "
                    "hg changed while the caller worked on the returned hypergraph"
                )
                checked += 1

            hg = build(weighted)
            before = snapshot(hg)
            out = random_shuffle_all_orders(hg, p=p, inplace=False, seed=seed)
            assert snapshot(hg) == before
            if p == 0.0:
                assert snapshot(out) == before, "p = 0 changed something (all orders)"
            carry_on_with(out, seed)
            assert snapshot(hg) == before, (
                f"random_shuffle_all_orders(hg, p={p}, inplace=False, seed={seed}): "
                "hg changed while the caller worked on the returned hypergraph"
            )
            checked += 1

print("ok,", checked, "cases")
sys.exit(0)
