import itertools
import numbers
import warnings
from collections import Counter

import numpy as np

from hypergraphx import Hypergraph
from hypergraphx.generation.hy_mmsbm_sampling import HyMMSBMSampler


def snapshot(h):
    """Order-independent, hashable description of a weighted hypergraph."""
    return sorted(
        (tuple(sorted(repr(n) for n in e)), int(w))
        for e, w in zip(h.get_edges(), h.get_weights())
    )


def check_basic(h, allowed_nodes, max_size=None):
    assert h.is_weighted(), "sample is not weighted"
    edges = h.get_edges()
    ws = h.get_weights()
    assert len(edges) == len(ws)
    for w in ws:
        assert isinstance(w, (numbers.Integral, np.integer)), ("non-integer weight", w)
        assert w > 0, ("non-positive weight", w)
    canon = [tuple(sorted(e)) for e in edges]
    assert len(set(canon)) == len(canon), "repeated hyperedge"
    for e in edges:
        assert len(set(e)) == len(e), ("repeated node in hyperedge", e)
        assert len(e) >= 2, ("hyperedge too small", e)
        if max_size is not None:
            assert len(e) <= max_size, ("hyperedge too large", e)
    allowed = set(allowed_nodes)
    for n in h.get_nodes():
        assert n in allowed, ("foreign node", n)


def check_conditioned(h, deg, dim, check_deg=True, coincidence_possible=True):
    """deg: {node: conditioned degree}; dim: {size: conditioned count}."""
    edges = h.get_edges()
    d = Counter()
    for e in edges:
        for n in e:
            d[n] += 1
    s = Counter(len(e) for e in edges)
    for size, c in s.items():
        assert c <= dim.get(size, 0), ("size count exceeded", size, c, dim.get(size, 0))
    if check_deg:
        for n, c in d.items():
            assert c <= deg.get(n, 0), ("degree exceeded", n, c, deg.get(n, 0))
    n_cond = sum(dim.values())
    no_coincidence = (not coincidence_possible) or len(edges) == n_cond
    if no_coincidence:
        for size, c in dim.items():
            assert s.get(size, 0) == c, ("size count not met", size, s.get(size, 0), c)
        if check_deg:
            for n, c in deg.items():
                assert d.get(n, 0) == c, ("degree not met", n, d.get(n, 0), c)


def hyg_sequences(h):
    deg = Counter()
    for e in h.get_edges():
        for n in e:
            deg[n] += 1
    for n in h.get_nodes():
        deg.setdefault(n, 0)
    dim = Counter(len(e) for e in h.get_edges())
    return dict(deg), dict(dim)


# Property C16, degree + size sequences given, with the documented option
# allow_rescaling=True (the model parameters are rescaled to the sequences).
# Every conditioned size occurs exactly once, hence two sampled hyperedges can never
# coincide and every sample must realise the sequences exactly.
warnings.simplefilter("ignore")
rng = np.random.default_rng(1)
N, K = 12, 2
u = rng.random((N, K)) * 3
w = np.array([[1.0, 0.2], [0.2, 0.8]])
dim = {2: 1, 3: 1, 4: 1, 5: 1}
deg = np.array([4, 3, 2, 1, 1, 1, 1, 1, 0, 0, 0, 0])
assert deg.sum() == sum(k * v for k, v in dim.items())

for allow_rescaling in (False, True):
    for seed in (0, 5, 11):
        runs = []
        for rep in range(2):
            s = HyMMSBMSampler(
                u=u.copy(), w=w.copy(), max_hye_size=6,
                burn_in_steps=30, intermediate_steps=10, seed=seed,
            )
            gen = s.sample(
                deg_seq=deg.copy(), dim_seq=dict(dim), allow_rescaling=allow_rescaling
            )
            snaps = []
            for h in itertools.islice(gen, 4):
                check_basic(h, range(N))
                assert s.matching_sequences is True
                check_conditioned(
                    h, dict(enumerate(deg.tolist())), dim,
                    check_deg=True, coincidence_possible=False,
                )
                snaps.append(snapshot(h))
            runs.append(snaps)
        assert runs[0] == runs[1], "same parameters and seed gave different samples"
print("demo1: property holds")
