"""C17: HypergraphMT.fit returns identical results when run twice with the same
seed - here with starting values supplied through the documented
initialize_u0 / initialize_w0 keywords."""
import contextlib
import io

import numpy as np

from hypergraphx import Hypergraph
from hypergraphx.communities.hypergraph_mt.model import HypergraphMT

edges = [(0, 1), (1, 2), (0, 2), (0, 1, 2), (3, 4), (4, 5), (3, 5), (3, 4, 5),
         (2, 3), (1, 4, 6), (0, 5, 6, 7), (6, 7)]
weights = [2, 1, 3, 1, 2, 2, 1, 4, 1, 1, 2, 3]
h = Hypergraph(edges, weighted=True, weights=weights)
h.add_node(8)  # isolated node
N, K, D = 9, 2, 4

rs = np.random.RandomState(123)
u0 = rs.random_sample((N, K)) + 0.05
w0 = rs.random_sample((D - 1, K)) + 0.05


def fit(seed, **kw):
    m = HypergraphMT(n_realizations=2, max_iter=8, min_value_par=0, verbose=False)
    with contextlib.redirect_stdout(io.StringIO()):
        u, w, L = m.fit(h, K=K, seed=seed, **kw)
    assert u.shape == (N, K) and w.shape == (D - 1, K)
    assert np.isfinite(u).all() and (u >= 0).all() and not u[8].any()
    assert np.isfinite(w).all() and (w >= 0).all()
    finals = m.train_info.groupby("realization")["loglik"].last()
    assert np.isclose(L, finals.max(), rtol=1e-12, atol=0)
    return u, w, L


cases = [
    dict(initialize_u0=u0.copy(), baseline_r0=False),
    dict(initialize_u0=u0.copy(), baseline_r0=True),
    dict(initialize_w0=w0.copy(), baseline_r0=True),
    dict(initialize_u0="spectral", baseline_r0=False),
    dict(initialize_u0=u0.copy(), initialize_w0=w0.copy(), baseline_r0=False,
         normalizeU=True),
]
bad = []
for seed in (0, 5):
    for kw in cases:
        a = fit(seed, **kw)
        b = fit(seed, **kw)
        same = np.array_equal(a[0], b[0]) and np.array_equal(a[1], b[1]) and a[2] == b[2]
        if not same:
            bad.append((seed, sorted(kw), float(np.abs(a[0] - b[0]).max())))

assert not bad, f"two runs with the same seed differ: {bad[:3]}"
print("ok")
