"""C17, Hypergraph-MT part.  Every clause of the property is checked; the seed is
given in all the forms fit accepts: an explicit integer, None, and left out
(fit's signature is  seed: Optional[int] = None).
"""
import contextlib
import io
import sys
import warnings

import numpy as np

from hypergraphx import Hypergraph
from hypergraphx.communities.hypergraph_mt.model import HypergraphMT

warnings.filterwarnings("ignore")


def random_hypergraph(rng, n, m, max_size, weighted, labels, n_isolated):
    edges = set()
    while len(edges) < m:
        s = rng.randint(2, max_size + 1)
        edges.add(tuple(sorted(rng.choice(n, s, replace=False).tolist())))
    edges = [tuple(labels[i] for i in e) for e in sorted(edges)]
    if weighted:
        h = Hypergraph(
            edges, weighted=True, weights=[float(rng.randint(1, 6)) for _ in edges]
        )
    else:
        h = Hypergraph(edges)
    for j in range(n_isolated):
        h.add_node(labels[n + j])
    return h


def elementary_symmetric(x, top):
    e = np.zeros(top + 1)
    e[0] = 1.0
    for v in x:
        for d in range(top, 0, -1):
            e[d] += v * e[d - 1]
    return e


def loglik_from_definition(h, u, w):
    nodes = sorted(h.get_nodes())
    idx = {v: i for i, v in enumerate(nodes)}
    D = w.shape[0] + 1
    K = u.shape[1]
    total = 0.0
    for e, a in zip(h.get_edges(), h.get_weights()):
        lam = sum(
            w[len(e) - 2, k] * np.prod([u[idx[v], k] for v in e]) for k in range(K)
        )
        total += a * np.log(lam)
    for k in range(K):
        es = elementary_symmetric(u[:, k], D)
        for d in range(2, D + 1):
            total -= w[d - 2, k] * es[d]
    return total


def fit(h, K, seed_kw, normalizeU, baseline_r0):
    model = HypergraphMT(
        min_value_par=0.0, n_realizations=3, max_iter=25, verbose=False
    )
    with contextlib.redirect_stdout(io.StringIO()):
        u, w, L = model.fit(
            h, K, normalizeU=normalizeU, baseline_r0=baseline_r0, **seed_kw
        )
    return model, np.array(u), np.array(w), float(L)


def check_one(h, K, res, normalizeU):
    model, u, w, L = res
    nodes = sorted(h.get_nodes())
    D = max(len(e) for e in h.get_edges())
    touched = set(v for e in h.get_edges() for v in e)
    assert u.shape == (len(nodes), K) and w.shape == (D - 1, K)
    assert np.isfinite(u).all() and (u >= 0).all()
    assert np.isfinite(w).all() and (w >= 0).all()
    assert np.isfinite(L)
    for row, v in zip(u, nodes):
        if v not in touched:
            assert not row.any(), ("isolated node with membership", v, row)
        elif normalizeU and row.any():
            assert abs(row.sum() - 1) < 1e-6, (v, row)
    info = model.train_info
    finals = []
    for r, tab in info.groupby("realization"):
        ll = tab.sort_values("iter")["loglik"].to_numpy()
        finals.append(ll[-1])
        if not normalizeU:
            steps = np.diff(ll)
            tol = 1e-9 * max(1.0, np.abs(ll).max())
            assert (steps >= -tol).all(), ("log-likelihood decreased", r, steps.min())
    assert len(finals) == 3
    assert L == max(finals), (L, finals)
    ref = loglik_from_definition(h, u, w)
    assert abs(ref - L) <= 1e-7 * max(1.0, abs(L)), ("definition", ref, L)


def same(a, b):
    return (
        np.array_equal(a[1], b[1]) and np.array_equal(a[2], b[2]) and a[3] == b[3]
    )


def main():
    rng = np.random.RandomState(99)
    seed_forms = [
        ("seed=5", {"seed": 5}),
        ("seed=10", {"seed": 10}),
        ("seed=None", {"seed": None}),
        ("seed omitted", {}),
    ]
    not_reproducible = []
    n_runs = 0
    for case in range(6):
        n = int(rng.randint(8, 16))
        n_iso = int(rng.randint(0, 3))
        if case % 2:
            labels = ["v%03d" % i for i in range(n + n_iso)]
        else:
            labels = list(range(n + n_iso))
        h = random_hypergraph(
            rng, n, int(rng.randint(n, 2 * n)), int(rng.randint(2, 5)),
            bool(case % 3 == 0), labels, n_iso,
        )
        K = 2 + case % 2
        for normalizeU, baseline_r0 in ((False, False), (False, True), (True, True)):
            for name, kw in seed_forms:
                first = fit(h, K, kw, normalizeU, baseline_r0)
                second = fit(h, K, kw, normalizeU, baseline_r0)
                check_one(h, K, first, normalizeU)
                check_one(h, K, second, normalizeU)
                n_runs += 1
                if not same(first, second):
                    not_reproducible.append((case, normalizeU, baseline_r0, name))
    print("configurations:", n_runs, "not reproducible:", len(not_reproducible))
    assert not not_reproducible, (
        "HypergraphMT.fit run twice with the same seed gave different results: %r"
        % not_reproducible[:10]
    )


if __name__ == "__main__":
    main()
    sys.exit(0)
