"""C19: in 'keep' mode with keep_edges=True every hyperedge that matches the
hyperedge criterion is left (shrunk by the removed nodes), with its weight and
metadata unchanged - also when all of its nodes are removed."""
from hypergraphx import Hypergraph
from hypergraphx.filters import filter_hypergraph

H = Hypergraph(weighted=True)
H.add_node("a", {"type": "person"})
H.add_node("b", {"type": "person"})
H.add_node("c", {"type": "bot"})
H.add_edge(("a", "b", "c"), 3, {"k": "keep"})
H.add_edge(("c",), 4, {"k": "keep"})
H.add_edge(("a", "c"), 2, {"k": "drop"})

matching = {e: (H.get_weight(e), dict(H.get_edge_metadata(e)))
            for e in H.get_edges() if H.get_edge_metadata(e).get("k") in ["keep"]}
removed = {"c"}
expected = {}
for e, wm in matching.items():
    expected[tuple(n for n in e if n not in removed)] = wm

filter_hypergraph(
    H,
    node_criteria={"type": ["person"]},
    edge_criteria={"k": ["keep"]},
    mode="keep",
    keep_edges=True,
)

assert sorted(H.get_nodes()) == ["a", "b"], H.get_nodes()
got = {e: (H.get_weight(e), dict(H.get_edge_metadata(e))) for e in H.get_edges()}
assert got == expected, (got, expected)
print("ok")
