#!/venv/bin/python
"""Apply each selftest/mutants/*.patch to a scratch worktree of /repo; the repository's suite must stay
green (otherwise the mutant is 'unrealistic' and only reported) and ./check <prop> --tier quick must exit 1
with a VIOLATION line.  Not part of any registered check."""
import json, os, re, subprocess, sys, tempfile
from concurrent.futures import ThreadPoolExecutor
V = os.path.dirname(os.path.dirname(os.path.abspath(__file__)))
PY = "/venv/bin/python"


def sh(cmd, cwd=None, env=None, timeout=3600):
    e = dict(os.environ); e.update(env or {})
    r = subprocess.run(cmd, shell=True, cwd=cwd, env=e, capture_output=True, text=True, timeout=timeout)
    return r.returncode, r.stdout + r.stderr


def one(path):
    name = os.path.basename(path)[:-6]
    prop = re.search(r"# property: (C\d+)", open(path).read()).group(1)
    res = {"name": name, "property": prop}
    wt = tempfile.mkdtemp(prefix="hgx_mut_"); os.rmdir(wt)
    sh(f"git -C /repo worktree add -q --detach {wt} HEAD")
    try:
        rc, out = sh(f"git apply {path}", cwd=wt)
        if rc:
            res["error"] = out[-200:]; return res
        if "--skip-suite" not in sys.argv:
            rc, out = sh(f"{PY} -m pytest -q -p no:cacheprovider --timeout=900 -x", cwd=wt, env={"PYTHONPATH": wt, "PYTHONDONTWRITEBYTECODE": "1"})
            res["suite_passes"] = "430 passed" in out
        for tier in (("quick", "thorough") if "--thorough" in sys.argv else ("quick",)):
            rc, out = sh(f"./check {prop} --tier {tier}", cwd=V, env={"HGX_VERIF_REPO": wt})
            lines = [l for l in out.splitlines() if "WARNING" not in l]
            res["caught_" + tier] = rc == 1 and any(l.startswith("VIOLATION") for l in lines)
            res["rc_" + tier] = rc
            res["mechanisms"] = [l.strip() for l in lines if l.strip().startswith("violated:")][:4]
            if res["caught_" + tier]:
                break
    finally:
        sh(f"git -C /repo worktree remove --force {wt}"); sh(f"rm -rf {wt}")
    return res


def main():
    names = [a for a in sys.argv[1:] if not a.startswith("--")]
    d = os.path.join(V, "selftest", "mutants")
    paths = sorted(os.path.join(d, f) for f in os.listdir(d) if f.endswith(".patch") and (not names or any(n in f for n in names)))
    with ThreadPoolExecutor(int(os.environ.get("SEEDED_JOBS", "3"))) as ex:
        results = list(ex.map(one, paths))
    outp = os.path.join(V, "selftest", "mutant_results.json")
    old = {r["name"]: r for r in json.load(open(outp))} if os.path.exists(outp) else {}
    old.update({r["name"]: r for r in results})
    json.dump(sorted(old.values(), key=lambda r: r["name"]), open(outp, "w"), indent=1)
    for r in results:
        print(f"{r['name']:40s} {r['property']} suite={r.get('suite_passes')} caught={r.get('caught_quick') or r.get('caught_thorough')} rc={r.get('rc_quick')} {r.get('mechanisms', [''])[:1]} {r.get('error', '')}")


if __name__ == "__main__":
    main()
