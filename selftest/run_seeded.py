#!/venv/bin/python
"""Self-test of the monitors against seeded breaking changes (never part of a registered check).

For every directory seeded/<name>/ (patch.diff, demo.py, meta.json) — or the ones named on the
command line — a scratch git worktree of /repo is created OUTSIDE /repo and /verif, the patch is
applied there, and:
  1. the repository's own suite must still pass            (else the change is not realistic)
  2. demo.py must fail with the change and pass without it  (else it does not break the property)
  3. ./check <property> --tier quick with HGX_VERIF_REPO=<scratch> must exit 1 with a VIOLATION line
The scratch worktree is removed afterwards.  Results: selftest/results.json + a table on stdout.
"""
import json
import os
import subprocess
import sys
import tempfile
from concurrent.futures import ThreadPoolExecutor

V = os.path.dirname(os.path.dirname(os.path.abspath(__file__)))
PY = "/venv/bin/python"


def sh(cmd, cwd=None, env=None, timeout=1800):
    e = dict(os.environ)
    e.update(env or {})
    r = subprocess.run(cmd, shell=True, cwd=cwd, env=e, capture_output=True, text=True, timeout=timeout)
    return r.returncode, (r.stdout + r.stderr)


def one(name, tiers=("quick",), skip_suite=False):
    d = os.path.join(V, "seeded", name)
    meta = json.load(open(os.path.join(d, "meta.json")))
    prop = meta["property"]
    res = {"name": name, "property": prop, "summary": meta.get("summary", "")[:100]}
    wt = tempfile.mkdtemp(prefix="hgx_mut_")
    os.rmdir(wt)
    rc, out = sh(f"git -C /repo worktree add -q --detach {wt} HEAD")
    if rc:
        res["error"] = "worktree: " + out[-300:]
        return res
    try:
        env = {"PYTHONPATH": wt, "PYTHONDONTWRITEBYTECODE": "1"}
        rc, out = sh(f"{PY} {d}/demo.py", cwd=wt, env=env)
        res["demo_pristine_passes"] = rc == 0
        rc, out = sh(f"git apply {d}/patch.diff", cwd=wt)
        if rc:
            res["error"] = "patch does not apply: " + out[-300:]
            return res
        rc, out = sh(f"{PY} {d}/demo.py", cwd=wt, env=env)
        res["demo_fails_with_change"] = rc != 0
        if not skip_suite:
            rc, out = sh(f"{PY} -m pytest -q -p no:cacheprovider --timeout=900 -x", cwd=wt, env=env)
            res["suite_passes"] = "430 passed" in out
        for tier in tiers:
            rc, out = sh(f"./check {prop} --tier {tier}", cwd=V, env={"HGX_VERIF_REPO": wt, "VERIF_SEED": os.environ.get("VERIF_SEED", "0")}, timeout=7200)
            lines = [l for l in out.splitlines() if "WARNING" not in l]
            res[f"check_{tier}_rc"] = rc
            res[f"caught_{tier}"] = rc == 1 and any(l.startswith("VIOLATION") for l in lines)
            res[f"mechanisms_{tier}"] = [l.strip() for l in lines if l.strip().startswith("violated:")][:6]
            if res[f"caught_{tier}"]:
                break
        # other properties' checks that also notice (optional, when asked)
        for other in meta.get("also_check", []):
            rc, out = sh(f"./check {other} --tier quick", cwd=V, env={"HGX_VERIF_REPO": wt})
            res[f"also_{other}"] = rc == 1
    finally:
        sh(f"git -C /repo worktree remove --force {wt}")
        sh(f"rm -rf {wt}")
    return res


def main():
    args = [a for a in sys.argv[1:] if not a.startswith("--")]
    tiers = ("quick", "thorough") if "--thorough" in sys.argv else ("quick",)
    names = args or sorted(os.listdir(os.path.join(V, "seeded")))
    names = [n for n in names if os.path.exists(os.path.join(V, "seeded", n, "meta.json"))]
    jobs = int(os.environ.get("SEEDED_JOBS", "3"))
    with ThreadPoolExecutor(jobs) as ex:
        results = list(ex.map(lambda n: one(n, tiers, "--skip-suite" in sys.argv), names))
    outp = os.path.join(V, "selftest", "results.json")
    old = {}
    if os.path.exists(outp):
        old = {r["name"]: r for r in json.load(open(outp))}
    for r in results:
        old[r["name"]] = r
    json.dump(sorted(old.values(), key=lambda r: r["name"]), open(outp, "w"), indent=1)
    for r in results:
        caught = r.get("caught_quick") or r.get("caught_thorough")
        print(f"{r['name']:14s} {r['property']} suite={r.get('suite_passes')} demo(pristine ok/changed fails)={r.get('demo_pristine_passes')}/{r.get('demo_fails_with_change')} "
              f"CAUGHT={caught} {r.get('mechanisms_quick', [''])[:1]} {r.get('error','')}")
    return 0


if __name__ == "__main__":
    sys.exit(main())
