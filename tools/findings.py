#!/venv/bin/python
"""maintain /verif/known_findings.json (never called by a check; checks only read the file)
usage: findings.py fixed <prop[,prop]> <commit> <mechanism> <what failed>
       findings.py open  <prop> <mechanism> <summary> <witness-json> <why-not-fixed>"""
import json,sys,os
P=os.path.join(os.path.dirname(os.path.dirname(os.path.abspath(__file__))),'known_findings.json')
d=json.load(open(P)) if os.path.exists(P) else {"format":"entries with status 'open' are printed as KNOWN-FINDING and tolerated, keyed by (property, mechanism); status 'fixed' entries suppress nothing","findings":[]}
if sys.argv[1]=='fixed':
    props,commit,mech,what=sys.argv[2:6]
    for pr in props.split(','):
        d['findings'].append({"status":"fixed","property":pr,"commit":commit,"mechanism":mech,
            "line":f"fixed: property={pr} {commit} {what}"})
elif sys.argv[1]=='open':
    pr,mech,summary,wit,why=sys.argv[2:7]
    d['findings'].append({"status":"open","property":pr,"mechanism":mech,"summary":summary,"witness":json.loads(wit),"why_not_fixed":why})
json.dump(d,open(P,'w'),indent=1); open(P,'a').write('\n')
