#!/venv/bin/python
"""Diagnostic (not a registered check): run the first N cases of a property in-process and list, per function of the
anchored files, the executable lines the workload never reached.  usage: tools/missed_lines.py C09 [N] [file-substring]"""
import importlib
import os
import sys

sys.path[:0] = ["/repo", os.path.dirname(os.path.dirname(os.path.abspath(__file__)))]
os.environ.setdefault("HGX_VERIF", "1")
from hgxmon import monitor, probes  # noqa: E402

prop = sys.argv[1].upper()
n = int(sys.argv[2]) if len(sys.argv) > 2 else 300
sub = sys.argv[3] if len(sys.argv) > 3 else ""
mod = importlib.import_module("hgxmon.oracles." + prop.lower())
probes.coverage_start("/repo")
ctx = monitor.Ctx(prop, 0, "quick")
monitor.run_cases(mod, ctx, range(n))
hits = {}
for f, ln in probes.coverage_hits():
    hits.setdefault(f, set()).add(ln)
for f in sorted(hits):
    if sub not in f:
        continue
    f0, f = f, (f if os.path.isabs(f) else os.path.join("/repo", f))
    hits[f] = hits[f0]
    ex = probes.executable_lines(f)
    miss = sorted(ex - hits[f])
    src = open(f).read().splitlines()
    print(f"== {f}: {len(hits[f] & ex)}/{len(ex)}")
    for name, a, b in probes.functions_in(f):
        m = [x for x in miss if a <= x <= b]
        if m and any(x in hits[f] for x in range(a, b + 1)):  # entered but not fully
            print(f"  {name} [{a}-{b}] missed {len(m)}:")
            for x in m[:25]:
                print(f"      {x}: {src[x-1].strip()[:110]}")
