#!/venv/bin/python
"""(re)generate /verif/MANIFEST.json from the table below; validates against the schema when
jsonschema is importable (python3-vt)."""
import json
import os
import subprocess

V = os.path.dirname(os.path.dirname(os.path.abspath(__file__)))

HIST = ("history + executable model: every public mutating call of a generated history is recorded at the client "
        "boundary and checked online against an abstract set/dict model (transition relation), then a derived-query "
        "battery compares every public query with the value recomputed from the observation")
POST = "postcondition oracle wrapped around the real functions, evaluated on every call of a generated workload"

CHECKS = {
    "C01": dict(tech="runtime monitoring: " + HIST, ref="DESIGN.md 4/C01",
                text="held on the histories explored: ~1 200 (quick) to ~20 000 generated hostile histories plus EVERY history of 4 calls over a fixed 18-call alphabet (thorough, exhaustive for that sub-space), scripted hub and scale histories, tuple labels, weights handed to unweighted containers; each event judged against the abstract model and ~60 derived queries (keyword and positional filters, listings held across later calls); exploration, not proof",
                note="trusts hgxmon/models.py as the specification and the leniency list of DESIGN.md 2.3; only the public API is read"),
    "C02": dict(tech="runtime monitoring: " + HIST, ref="DESIGN.md 4/C02",
                text="held on the generated histories of DirectedHypergraph (direction pairs, reversed keys, role-wise incidence, node metadata survival); exploration",
                note="same trusted base as C01; keep_edges=True may drop or shrink"),
    "C03": dict(tech="runtime monitoring: " + HIST + "; time windows, snapshots and aggregate() recomputed from the observation after each event",
                ref="DESIGN.md 4/C03",
                text="held on the generated histories of TemporalHypergraph incl. all sampled windows/widths; exploration",
                note="same trusted base as C01; times 0..6 and, in fixed cases, time stamps up to 2**64 and beyond"),
    "C04": dict(tech="runtime monitoring: " + HIST + "; aggregated_hypergraph() and edge_overlap recomputed after each event, non-mutation observed",
                ref="DESIGN.md 4/C04",
                text="held on the generated histories of MultiplexHypergraph; exploration",
                note="same trusted base as C01; 2-4 layer names"),
    "C05": dict(tech="runtime monitoring: " + POST + " (subhypergraph, subhypergraph_by_orders, get_edges(subhypergraph=True), subhypergraph_largest_component, copy); expected selection recomputed from the source's public observation; source re-observed and re-hashed after each call",
                ref="DESIGN.md 4/C05",
                text="held on the explored sources (history end states with id gaps and metadata) x all enumerated selections; exploration",
                note="most sources <= 8 nodes (all node subsets only when <= 6 nodes); fixed cases with 30-120 nodes, hubs and core-periphery shapes; nested metadata edited in place after copy()"),
    "C06": dict(tech="runtime monitoring: round-trip postcondition oracle on save_hypergraph/load_hypergraph (json + hgx) with non-mutation observation and independent record-level parse of the written file; generated .hgr files and HIF documents checked against their abstract content",
                ref="DESIGN.md 4/C06",
                text="held on the explored objects of all four types (history end states, replaced/cleared hypergraph metadata, isolated nodes) and on generated .hgr / HIF inputs; exploration",
                note="labels int/str; user metadata may use the reserved words weight/time/layer with disagreeing values; loaded objects are edited and round-tripped again; .hgr header single-space separated; HIF duplicate incidence sets checked for existence only"),
    "C07": dict(tech="runtime monitoring: metamorphic trace check over pairs of executions of hash_hypergraph (same typed content via 4-8 different construction histories => equal hash; each single-element edit => different hash; per-process obs->hash and hash->obs tables; observation before == after hashing)",
                ref="DESIGN.md 4/C07",
                text="held on the explored contents of all four container types and all applicable single edits; exploration",
                note="labels int/str, one numeric type per weight; construction histories that miss the intended content are discarded and counted"),
    "C08": dict(tech="runtime monitoring: " + POST + " (measures.degree.*, utils.cc.* and the container methods) against set-arithmetic degrees and union-find components, for every filter and node",
                ref="DESIGN.md 4/C08",
                text="held on the explored hypergraphs x every order/size filter x every node, through functions and methods; exploration",
                note="most inputs <= 8 nodes, fixed cases with 60-120 nodes and core-periphery shapes, tuple labels; every hypergraph on 4 fixed nodes in the thorough tier; reference union-find in hgxmon/refs.py"),
    "C09": dict(tech="runtime monitoring: " + POST + " (hypergraphx.linalg and the matrix methods): returned mapping checked as a bijection, dense reference matrices built by definition from the public observation, exact comparison",
                ref="DESIGN.md 4/C09",
                text="held on the explored hypergraphs (non-contiguous/string labels, all orders present and absent, dense stress family, uniform tensors, temporal snapshots) except the open known finding (uint8 wrap-around at 256 shared hyperedges); exploration",
                note="integer matrices compared exactly; per-order variants and Laplacians judged on unweighted inputs as the statement says"),
    "C10": dict(tech="runtime monitoring: " + POST + " (bipartite_projection, clique_projection, line_graph, directed_line_graph, simplicial_complex): vertices, id tables, adjacency and weights recomputed from the incidence structure; thresholds chosen to hit similarity values exactly",
                ref="DESIGN.md 4/C10",
                text="held on the explored hypergraphs / directed hypergraphs x both distances x all thresholds x weighted both; exploration",
                note="most inputs <= 8 nodes, sizes 1-5; fixed cases with 30-50 nodes and with hyperedges sharing 256-258 nodes; every hypergraph on 4 fixed nodes in the thorough tier; empty face of the simplicial complex tolerated"),
    "C11": dict(tech="runtime monitoring: postcondition oracle comparing compute_motifs with brute-force enumeration over all 3-/4-subsets + metamorphic pair (relabelling, insertion order); thorough tier enumerates every connected labelled pattern on 3 and 4 nodes as single-motif inputs; directed census checked for relabelling invariance, canonical representatives and ignoring larger hyperedges",
                ref="DESIGN.md 4/C11",
                text="held on the explored inputs; the single-motif sub-space (12 + 1990 patterns) is covered exhaustively in the thorough tier; exploration",
                note="integer labels, <= 9 nodes; canonical form by exhaustive permutation"),
    "C12": dict(tech="runtime monitoring: " + POST + " (measures.directed.*): degrees, signature cells and the three reciprocities recomputed from their definitions for every bound 2..8 and every filter",
                ref="DESIGN.md 4/C12",
                text="held on the explored directed hypergraphs (forced reversed / partially reversed pairs) x all bounds; exploration",
                note="reciprocity defined on the hyperedges within the size bound"),
    "C13": dict(tech="runtime monitoring: invariant at a hook (sys.monitoring PY_RETURN on the nested mh_step closure / LINE at the loop heads of the directed model observes the chain after every step) + output postcondition (decides) on degrees per size, size/shape multisets and untouched sizes",
                ref="DESIGN.md 4/C13",
                text="held on the explored inputs x parameters x seeds, with every chain step of the edge/stub model observed; exploration over random outcomes",
                note="numpy.random / random seeded by the harness; 'for all outcomes' is decided only for the seeds run"),
    "C14": dict(tech="runtime monitoring: " + POST + " (random_hypergraph, random_uniform_hypergraph, scale_free_hypergraph, HOADmodel, add_random_edge(s), random_shuffle(_all_orders)) + sys.monitoring probe on random_shuffle exposing which hyperedges were rewired and the node pool",
                ref="DESIGN.md 4/C14",
                text="held on the explored parameter draws x 3 seeds each; exploration over random outcomes",
                note="requested counts never exceed the number of possible hyperedges; an add_random_edge draw that already exists may add 1 to its weight / reset its metadata (C01 re-insertion semantics)"),
    "C15": dict(tech="runtime monitoring: postcondition oracles on HyMMSBM closed forms against brute-force sums over all possible hyperedges; trace monitor wrapped around every _w_update/_u_update of fit() (finite, non-negative, symmetric/diagonal, supplied parameters untouched) and public replays n_iter=1..T checked for ascent of the exact Poisson likelihood",
                ref="DESIGN.md 4/C15",
                text="held on the explored parameter sets and fit configurations, except five open known findings (N==2 division, MAP-EM under a positive prior, NaN after community underflow, after affinity-entry underflow, after a non-positive update denominator); exploration",
                note="rtol 1e-9 with an absolute term scaled by the cancelling magnitudes; brute force for N <= 8, enumeration-free closed forms for N up to 1500; differences between tol and 100*tol are inconclusive, not held"),
    "C16": dict(tech="runtime monitoring: postcondition oracle on every hypergraph yielded by HyMMSBMSampler.sample + wrapper on _mcmc_step watching the chain state after every step (diagnostic) + metamorphic pair of equal samplers (same parameters and seed)",
                ref="DESIGN.md 4/C16",
                text="held on the explored sampler configurations (initial hypergraph / sequences / model), 3-4 samples each; exploration over random outcomes",
                note="exceptions while building the initial configuration count as refused; no size-1 hyperedges"),
    "C17": dict(tech="runtime monitoring: postcondition oracles on HypergraphMT.fit / HySC.fit + trace monitor wrapped around _update_em, _initialize_psiOmega and enforce_constraint_u (truncation events, leave-one-out bookkeeping, Lagrange solves) + log-likelihood recomputed from the definition by DP + same-seed metamorphic pair",
                ref="DESIGN.md 4/C17",
                text="held on the explored hypergraphs x configurations except six open known findings (Lagrange multiplier solve, decreases after truncation, epsilon regime, cancellation with diverging affinity, assertion after NaN, size-1 hyperedges); exploration",
                note="K <= number of non-isolated nodes; condition-aware tolerance for the definition check; ascent judged on steps without truncation"),
    "C18": dict(tech="runtime monitoring: " + POST + " (transition_matrix, RW_stationary_state, random_walk_density, random_walk, simplicial_contagion) + adversarial scripted replacement of numpy.random.random + sys.monitoring LINE probe recording the branches driven inside the contagion sweep + 15-line synchronous reference for the deterministic regimes",
                ref="DESIGN.md 4/C18",
                text="held on the explored connected hypergraphs and contagion configurations under seeded and scripted random streams; exploration",
                note="most inputs N <= 9, fixed cases with 60-120 nodes, core-periphery shapes and a node pair in 286 hyperedges; 'for all seeds' decided for the seeds and scripted streams run"),
    "C19": dict(tech="runtime monitoring: postcondition oracle on filter_hypergraph (expected result from the abstract model's remove-node relation + criteria on the public observation, all four container types) and on get_svh (exact rational binomial tail, threshold recomputed from the reported p-values, mp=True compared in a subprocess)",
                ref="DESIGN.md 4/C19",
                text="held on the explored containers x criteria x modes and weighted hypergraphs; exploration",
                note="match = metadata.get(attr) in allowed values; alpha left at its default"),
    "C20": dict(tech="runtime monitoring: postcondition oracles on the centrality functions against networkx on an independently built s-line graph / bipartite graph, scipy expm, eigen-equation residuals for CEC/HEC, and metamorphic relabelled copies",
                ref="DESIGN.md 4/C20",
                text="held on the explored hypergraphs, temporal hypergraphs (int and str labels) and connected uniform hypergraphs x 3 seeds; exploration",
                note="CEC residual 1e-5*lambda (up to 3e-5 inconclusive), HEC ratio spread 1e-3 (up to 1e-1 inconclusive)"),
}

PENDING = {}
for i in range(5, 21):
    PENDING[f"C{i:02d}"] = "check under construction in this session (design in DESIGN.md section 4); not claimed until its monitor runs clean on the tree"


def main():
    checks = []
    for pid in sorted(CHECKS):
        c = CHECKS[pid]
        checks.append({
            "property_id": pid,
            "quick_cmd": f"./check {pid} --tier quick",
            "thorough_cmd": f"./check {pid} --tier thorough",
            "evidence_file": f"evidence/{pid}.json",
            "replay_cmd_template": f"./check {pid} --replay {{path}}",
            "engine": "hgxmon",
            "level_claimed": {"category": "exploration", "text": c["text"], "design_ref": c["ref"]},
            "level_note": c["note"],
            "technique": c["tech"],
        })
    m = {
        "version": 1,
        "setup_cmd": "/venv/bin/python -c \"import sys, numpy, scipy, networkx, pandas, sklearn; assert sys.version_info >= (3, 12)\"",
        "hooks": {
            "guard": "HGX_VERIF",
            "enable": "no source hooks: ./check sets HGX_VERIF=1 and attaches all instrumentation from the harness (attribute wrapping, sys.monitoring) to the modules imported from /repo's working tree in fresh interpreter processes",
            "baseline_off_cmd": "cd /repo && env -u HGX_VERIF /venv/bin/python -m pytest -ra -q -p no:cacheprovider --timeout=900",
            "source_commits": [],
            "add_only": True,
        },
        "engines": [{"name": "hgxmon", "path": "hgxmon/", "serves_properties": sorted(CHECKS),
                     "kind_free_text": "runtime monitors written for this repository: history/model checkers, postcondition oracles, sys.monitoring probes, metamorphic pairs; sharded over subprocesses by hgxmon/driver.py"}],
        "checks": checks,
        "notes": "Exit 0 held / 1 VIOLATION / 2 INCONCLUSIVE (never on the unchanged tree). Genuine defects repaired by 'fix:' commits in /repo are listed in known_findings.json (status fixed); open findings are printed as KNOWN-FINDING.",
        "not_applicable": [{"property_id": p, "reason": r} for p, r in sorted(PENDING.items()) if p not in CHECKS],
    }
    with open(os.path.join(V, "MANIFEST.json"), "w") as fh:
        json.dump(m, fh, indent=1)
        fh.write("\n")
    code = ("import json,jsonschema;jsonschema.validate(json.load(open('%s/MANIFEST.json')),"
            "json.load(open('/root/.vp/MANIFEST.schema.json')));print('MANIFEST valid')" % V)
    subprocess.run(["python3-vt", "-c", code])


if __name__ == "__main__":
    main()
