#!/venv/bin/python
import json,sys
r=json.load(open(sys.argv[1]))
seen=set()
for v in r['violations']:
    if v['mechanism'] in seen: continue
    seen.add(v['mechanism'])
    d=v['detail']; print(v['mechanism'], 'case', v['case'])
    if isinstance(d,dict): print(json.dumps({k:d[k] for k in d if k not in('cfg','before')})[:int(sys.argv[2]) if len(sys.argv)>2 else 1500])
    else: print(str(d)[:1500])
    print()
