#!/venv/bin/python
"""print a python source file without docstrings/blank lines (reading aid)"""
import ast,sys
def strip(path):
    src=open(path).read()
    tree=ast.parse(src)
    lines=src.split('\n')
    kill=set()
    for node in ast.walk(tree):
        if isinstance(node,(ast.FunctionDef,ast.ClassDef,ast.Module,ast.AsyncFunctionDef)):
            b=node.body
            if b and isinstance(b[0],ast.Expr) and isinstance(getattr(b[0],'value',None),ast.Constant) and isinstance(b[0].value.value,str):
                for i in range(b[0].lineno,b[0].end_lineno+1): kill.add(i)
    out=[]
    for i,l in enumerate(lines,1):
        if i in kill or not l.strip(): continue
        out.append(f"{i}\t{l}")
    return '\n'.join(out)
for p in sys.argv[1:]:
    print('#####',p); print(strip(p))
