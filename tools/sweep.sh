#!/bin/sh
# usage: tools/sweep.sh <tier> <seeds...>   -- runs every property, prints only summary/alarms
tier=$1; shift
for s in "$@"; do
  for i in 01 02 03 04 05 06 07 08 09 10 11 12 13 14 15 16 17 18 19 20; do
    VERIF_SEED=$s ./check C$i --tier $tier 2>&1 | grep -v WARNING | grep -v "^KNOWN-FINDING" | tail -6
  done
done
