#!/bin/sh
# validate all evidence files against the schema
for f in /verif/evidence/*.json; do python3-vt -c "import json,jsonschema,sys;jsonschema.validate(json.load(open('$f')),json.load(open('/root/.vp/EVIDENCE.schema.json')));print('ok $f')" 2>&1 | grep -v WARNING | tail -1; done
